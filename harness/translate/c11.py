"""Regenerates coq/Gen/C11_rng.v from /repo/src/lenskit (DESIGN 2.3 A, property C11).  Fail closed.

1. Seed-forwarding graph.  For every function of the modules below that *takes randomness* (a parameter
   named rng / options / context / generator / seed / random_state, or a method that reads self.rng,
   self._rng_factory or self.seed) the body is reduced, in source order, to
       Draw                     a method call on a generator derived from the function's own randomness
       Call callee arg          a call to another function that takes randomness (same modules, or the
                                library table LIB below), with how its randomness argument is supplied:
                                  ASeeded    an expression built from the caller's randomness
                                  ANone      the literal None
                                  AOmitted   not passed (the callee's default, None)
                                  AUnseeded  some expression that does not mention the caller's randomness
       Global what              a use of process-global randomness (np.random.<fn>, random.<fn>,
                                default_rng()/SeedSequence() without a seeded argument, torch.manual_seed,
                                torch.rand* without generator=)
   Also reported as Global inside functions that take randomness: values that differ between interpreter
   processes (hash(), id(), pid, clocks, uuid4, urandom) and iteration in set order -- seed material built from
   them is stable inside one process only.  Helper functions of the restricted modules (pipeline/_impl.py, ...)
   that take randomness are part of the graph.
   Ambient state (added after seeds C11-4 / C11-6 were missed).  A use of the function's own generator (a Draw, or a
   Call that hands it on, or a spawn) is reported as `Cond what stmt` -- never closed -- when it is conditional on
   state that is not part of (seed, inputs, call sequence): it sits under an if / while / conditional expression whose
   test consults the logging level, the environment, the configured or detected thread / CPU counts, warnings
   filters, interpreter flags (AMBIENT below) or a name computed from such a value; it follows an early exit guarded
   by such a test; or its arguments mention such a value (rng.spawn(nthreads)).  A truth-value test of seed material
   (`if not seed`, `seed or default`) inside a function that takes randomness is reported as Global: 0 and the empty
   sequence are valid seeds.
   State kept between calls (added after seed C11-8 was missed).  A function that takes randomness and is not a
   constructor must not store anything on a seed carrier -- `self` when the object carries seed material (the method
   reads self.rng / self.seed / self._rng_factory: TrainingOptions, hold-outs, rankers, generator factories) or the
   randomness parameter itself (options, context, rng, seed ...): attribute / item assignment or deletion,
   object.__setattr__ / setattr / delattr, __dict__ / vars() updates; nor memoise its result (functools cache
   decorators), nor park a value built from its randomness in a module-level name or container.  Each is reported as
   Global "state-kept-...": what a later call then sees is not a function of (seed, inputs, call sequence of that
   operation) but of everything that used the same object before.  TrainingOptions.random_generator is judged like
   any other function (it is no longer one of the hand-modelled primitives) and its class gives the generated
   `training_options_plan` (3).
   A local name is "derived from the caller's randomness" if it is assigned from an expression that
   mentions a derived name (rng = random_generator(rng); seed = SeedSequence(options.rng);
   c_opts = replace(options, rng=seed.spawn(1)[0]); train_ctx = self.prepare_context(options); ...), or if
   a method is called on it with a derived argument (torch_rng.manual_seed(int(rng.integers(...)))).
   The normalisation primitives of lenskit.random (PRIMITIVES) are modelled by hand in Model/C11_seeds.v;
   their shape is extracted separately (2).

2. Shapes: random_generator (when the global generator is consulted), DerivingRNG.__call__ (anonymous
   requests spawn, identified requests derive from (base seed, user id) without touching the object),
   the three stochastic rankers (scoring assigns no attribute; the generator comes from the factory
   called with the query), the three fork/join loops (fixed-size chunks in index order, joined in the
   same order).

3. training_options_plan: FreshPerCall when no method of TrainingOptions other than a constructor stores on `self`,
   is memoised, or parks randomness in a module-level name (every random_generator() call then builds its generator from
   the seed alone); otherwise Memoised.  Model/C11_seeds.v:train_all runs a sequence of trainings against ONE options
   object under either plan.
"""

from __future__ import annotations

import ast
from pathlib import Path

from .pyq import TranslateError, strip_doc

MODULES = [
    "lenskit/random.py", "lenskit/training.py", "lenskit/pipeline/_impl.py",
    "lenskit/splitting/records.py", "lenskit/splitting/users.py", "lenskit/splitting/holdout.py",
    "lenskit/splitting/temporal.py", "lenskit/splitting/split.py",
    "lenskit/basic/random.py", "lenskit/stochastic/_ranker.py", "lenskit/data/relationships.py",
    "lenskit/als/_common.py", "lenskit/als/_explicit.py", "lenskit/als/_implicit.py", "lenskit/funksvd.py",
    "lenskit/flexmf/_base.py", "lenskit/flexmf/_training.py", "lenskit/flexmf/_model.py",
    "lenskit/flexmf/_explicit.py", "lenskit/flexmf/_implicit.py", "lenskit/sklearn/svd.py", "lenskit/knn/item.py",
]
RAND_PARAMS = ["rng", "options", "context", "generator", "seed", "random_state", "torch_rng", "spec"]
SELF_RAND = {"rng", "_rng_factory", "seed"}
PRIMITIVES = {"random_generator", "set_global_rng", "derivable_rng", "make_seed", "load_seed", "_bytes_seed",
              "DerivingRNG.__call__", "DerivingRNG.__init__", "FixedRNG.__call__", "FixedRNG.__init__",
              "RNGFactory.__call__"}
CONSTRUCTORS = {"__init__", "__post_init__", "__new__", "__setstate__", "__init_subclass__"}
MEMO_DECORATORS = {"cache", "lru_cache", "cached_property", "functools.cache", "functools.lru_cache", "functools.cached_property"}
PER_CALL_OBJECTS = {"context"}      # the per-training context object is built by prepare_context inside the training
SETATTR_CALLS = {"object.__setattr__", "object.__delattr__", "setattr", "delattr"}
# library entry points that consume randomness: name -> keyword that must carry it
LIB = {"TruncatedSVD": "random_state", "nn.init.normal_": "generator", "torch.randn": "generator", "torch.rand": "generator",
       "torch.randperm": "generator", "torch.randint": "generator", "torch.normal": "generator",
       "default_rng": 0, "np.random.default_rng": 0, "SeedSequence": 0, "np.random.SeedSequence": 0}
GLOBAL_PREFIXES = ("np.random.", "numpy.random.", "random.")
GLOBAL_OK = {"np.random.default_rng", "np.random.SeedSequence", "np.random.Generator", "np.random.BitGenerator",
             "np.random.RandomState"}
GLOBAL_CALLS = {"torch.manual_seed", "torch.seed", "np.random.seed"}
# values that differ between interpreter processes: seed material must not be built from them
PROCESS_DEPENDENT = {"hash", "id", "os.getpid", "time.time", "time.time_ns", "time.perf_counter", "uuid.uuid4", "uuid4",
                     "os.urandom", "secrets.token_bytes", "secrets.randbits"}
# ambient state: values that are not part of (seed, inputs, call sequence).  Matched on the dotted name of a call or
# attribute / name read; entries starting with "." match the last component (methods of logger objects).
AMBIENT = {
    ".isEnabledFor": "logging-level", ".getEffectiveLevel": "logging-level", ".is_enabled_for": "logging-level",
    ".get_effective_level": "logging-level", "active_logging_config": "logging-level", "logging.root": "logging-level",
    "get_parallel_config": "thread-count", "effective_cpu_count": "thread-count", "os.cpu_count": "thread-count",
    "cpu_count": "thread-count", "multiprocessing.cpu_count": "thread-count", "mp.cpu_count": "thread-count",
    "os.process_cpu_count": "thread-count", "os.sched_getaffinity": "thread-count",
    "torch.get_num_threads": "thread-count", "torch.get_num_interop_threads": "thread-count",
    "threadpool_info": "thread-count", "numba.get_num_threads": "thread-count", "get_num_threads": "thread-count",
    "threading.active_count": "thread-count", "is_worker": "process-role", "is_mp_worker": "process-role",
    "os.environ": "environment", "os.environ.get": "environment", "os.getenv": "environment", "environ": "environment",
    "getenv": "environment",
    "warnings.filters": "warnings-filters", "sys.warnoptions": "warnings-filters", "sys.flags": "interpreter-flags",
    "__debug__": "interpreter-flags", "sys.gettrace": "interpreter-flags", "sys.stdout.isatty": "terminal",
    "sys.stderr.isatty": "terminal", "torch.are_deterministic_algorithms_enabled": "interpreter-flags",
}

PIPELINE_ONLY = {"lenskit/pipeline/_impl.py": {"Pipeline.train"}, "lenskit/training.py": {"TrainingOptions.random_generator", "IterativeTraining.train"},
                 "lenskit/data/relationships.py": {"MatrixRelationshipSet.sample_negatives", "MatrixRelationshipSet._check_negatives_and_resample"}}


def dotted(n):
    if isinstance(n, ast.Name):
        return n.id
    if isinstance(n, ast.Attribute):
        b = dotted(n.value)
        return None if b is None else b + "." + n.attr
    return None


class Fn:
    def __init__(self, module, cls, node):
        self.module, self.cls, self.node = module, cls, node
        self.name = (cls + "." if cls else "") + node.name
        a = node.args
        self.params = [x.arg for x in a.posonlyargs + a.args] + [x.arg for x in a.kwonlyargs]
        self.pos = [x.arg for x in a.posonlyargs + a.args]
        if cls and self.pos and self.pos[0] in ("self", "cls"):
            self.pos = self.pos[1:]
        self.rand_params = [p for p in self.params if p in RAND_PARAMS]
        self.self_rand = sorted({x.attr for x in ast.walk(node) if isinstance(x, ast.Attribute) and isinstance(x.value, ast.Name)
                                 and x.value.id == "self" and x.attr in SELF_RAND and isinstance(x.ctx, ast.Load)}) if cls else []
        self.takes = bool(self.rand_params or self.self_rand)


BASES: dict[str, list[str]] = {}


def related(a: str, b: str) -> bool:
    """a is b, an ancestor of b or a descendant of b (within the analysed modules)."""
    def ancestors(c, seen=()):
        out = {c}
        for p in BASES.get(c, []):
            if p not in seen:
                out |= ancestors(p, seen + (c,))
        return out
    return a in ancestors(b) or b in ancestors(a)


GEN_MAKERS = {"random_generator", "default_rng", "np.random.default_rng", "SeedSequence", "np.random.SeedSequence",
              "torch.Generator", "make_seed", "self._rng_factory"}
GEN_NAMES = {"rng", "generator", "torch_rng", "seed", "random_state", "self.rng", "self.seed", "context.rng", "context.torch_rng"}
IGNORE_CALLS = {"self.model.train": "torch.nn.Module.train(mode), not a training call"}


def collect(src: Path) -> list[Fn]:
    BASES.clear()
    fns = []
    for rel in MODULES:
        f = src / rel
        if not f.exists():
            raise TranslateError(f"module {rel} not found")
        tree = ast.parse(f.read_text(), filename=str(f))
        only = PIPELINE_ONLY.get(rel)
        for n in tree.body:
            if isinstance(n, ast.FunctionDef):
                if any(isinstance(d, ast.Name) and d.id == "overload" for d in n.decorator_list):
                    continue
                fn = Fn(rel, None, n)
                if only is None or fn.name in only or fn.takes:     # helpers that take randomness are always in
                    fns.append(fn)
            elif isinstance(n, ast.ClassDef):
                BASES[n.name] = [b.id if isinstance(b, ast.Name) else (b.value.id if isinstance(b, ast.Subscript) and isinstance(b.value, ast.Name) else
                                 (b.attr if isinstance(b, ast.Attribute) else "?")) for b in n.bases]
                for m in n.body:
                    if isinstance(m, ast.FunctionDef):
                        if any(isinstance(d, ast.Name) and d.id == "overload" for d in m.decorator_list):
                            continue
                        fn = Fn(rel, n.name, m)
                        if only is None or fn.name in only or (fn.takes and any(o.startswith(n.name + ".") for o in only)):
                            fns.append(fn)
    return fns


def mentions(expr, names: set[str]) -> bool:
    for x in ast.walk(expr):
        d = dotted(x) if isinstance(x, (ast.Name, ast.Attribute)) else None
        if d is None:
            continue
        if d in names:
            return True
        if isinstance(x, ast.Name) and x.id in names:
            return True
    return False


def ambient_of(expr, amb_names: dict[str, str]):
    """The kind of ambient state an expression consults (None: none): a call / read of an AMBIENT entry or a name
    computed from one."""
    for x in ast.walk(expr):
        if isinstance(x, ast.Call):
            d = dotted(x.func)
            if d in AMBIENT:
                return AMBIENT[d]
            if isinstance(x.func, ast.Attribute) and "." + x.func.attr in AMBIENT:
                return AMBIENT["." + x.func.attr]
        if isinstance(x, (ast.Name, ast.Attribute)):
            d = dotted(x)
            if d in AMBIENT and isinstance(getattr(x, "ctx", None), ast.Load):
                return AMBIENT[d]
            if d in amb_names:
                return amb_names[d]
    return None


EXITS = (ast.Return, ast.Raise, ast.Break, ast.Continue)


def control_conditions(fn_node, amb_names):
    """call node id -> kind of ambient state its execution is conditional on."""
    cond_of: dict[int, str] = {}
    state = {"after_exit": None}

    def tag(node, cond):
        if node is None:
            return
        for x in ast.walk(node):
            if isinstance(x, ast.IfExp):
                w = ambient_of(x.test, amb_names)
                if w:
                    for sub in (x.body, x.orelse):
                        for y in ast.walk(sub):
                            if isinstance(y, ast.Call):
                                cond_of.setdefault(id(y), w)
            if isinstance(x, ast.BoolOp):         # short circuit: operands after an ambient operand
                w = None
                for v in x.values:
                    if w:
                        for y in ast.walk(v):
                            if isinstance(y, ast.Call):
                                cond_of.setdefault(id(y), w)
                    w = w or ambient_of(v, amb_names)
            if isinstance(x, ast.Call) and cond:
                cond_of.setdefault(id(x), cond)

    def block(stmts, cond):
        for st in stmts:
            here = cond or state["after_exit"]
            if isinstance(st, (ast.If, ast.While)):
                tag(st.test, here)
                w = ambient_of(st.test, amb_names)
                block(st.body, here or w)
                block(st.orelse, here or w)
                if w and any(isinstance(y, EXITS) for z in st.body + st.orelse for y in ast.walk(z)):
                    state["after_exit"] = state["after_exit"] or w
            elif isinstance(st, (ast.For, ast.AsyncFor)):
                tag(st.iter, here)
                w = ambient_of(st.iter, amb_names)       # a loop whose trip count is ambient
                block(st.body, here or w)
                block(st.orelse, here)
            elif isinstance(st, (ast.With, ast.AsyncWith)):
                for it in st.items:
                    tag(it.context_expr, here)
                block(st.body, here)
            elif isinstance(st, ast.Try):
                block(st.body, here)
                for h in st.handlers:
                    block(h.body, here)
                block(st.orelse, here)
                block(st.finalbody, here)
            elif isinstance(st, ast.Match):
                tag(st.subject, here)
                w = ambient_of(st.subject, amb_names)
                for c in st.cases:
                    block(c.body, here or w)
            elif isinstance(st, (ast.FunctionDef, ast.AsyncFunctionDef)):
                block(st.body, here)
            elif isinstance(st, ast.ClassDef):
                block(st.body, here)
            else:
                tag(st, here)
    block(fn_node.body, None)
    return cond_of


def root_name(e):
    """The name at the root of an attribute / subscript / call chain (self.a[0].b -> self; vars(self) -> self)."""
    while True:
        if isinstance(e, ast.Name):
            return e.id
        if isinstance(e, (ast.Attribute, ast.Subscript, ast.Starred)):
            e = e.value
        elif isinstance(e, ast.Call) and dotted(e.func) == "vars" and e.args:
            e = e.args[0]
        else:
            return None


def local_names(fn_node) -> set[str]:
    """Parameters and plain names bound inside the function (not declared global / nonlocal)."""
    a = fn_node.args
    out = {x.arg for x in a.posonlyargs + a.args + a.kwonlyargs}
    for extra in (a.vararg, a.kwarg):
        if extra is not None:
            out.add(extra.arg)
    outer = set()
    for x in ast.walk(fn_node):
        if isinstance(x, (ast.Global, ast.Nonlocal)):
            outer |= set(x.names)
        elif isinstance(x, ast.Name) and isinstance(x.ctx, (ast.Store, ast.Del)):
            out.add(x.id)
        elif isinstance(x, (ast.Import, ast.ImportFrom)):
            out |= {(al.asname or al.name).split(".")[0] for al in x.names}
        elif isinstance(x, (ast.FunctionDef, ast.AsyncFunctionDef, ast.ClassDef)) and x is not fn_node:
            out.add(x.name)
    return out - outer


def state_stores(fn: "Fn", derived: set[str]):
    """(what, line) for everything the function keeps beyond its own call on a seed carrier or in module state."""
    node = fn.node
    found = []
    for d in node.decorator_list:
        dd = dotted(d.func if isinstance(d, ast.Call) else d)
        if dd in MEMO_DECORATORS:
            found.append((f"state-kept-by-memoisation:{dd}", d.lineno))
    if node.name in CONSTRUCTORS:
        return found
    carriers = set(fn.rand_params) - PER_CALL_OBJECTS
    if fn.cls and fn.self_rand:
        carriers.add("self")
    locs = local_names(node)
    outer = {n for x in ast.walk(node) if isinstance(x, (ast.Global, ast.Nonlocal)) for n in x.names}

    def value_of(target_holder):
        return getattr(target_holder, "value", None)

    # attribute / item stores and deletions
    for x in ast.walk(node):
        tgts, val = [], None
        if isinstance(x, ast.Assign):
            tgts, val = x.targets, x.value
        elif isinstance(x, (ast.AugAssign, ast.AnnAssign, ast.NamedExpr)):
            tgts, val = [x.target], x.value
        elif isinstance(x, ast.Delete):
            tgts = x.targets
        elif isinstance(x, (ast.For, ast.AsyncFor, ast.comprehension)):
            tgts, val = [x.target], x.iter
        elif isinstance(x, ast.withitem) and x.optional_vars is not None:
            tgts, val = [x.optional_vars], x.context_expr
        flat = []
        for t in tgts:
            flat += list(t.elts) if isinstance(t, (ast.Tuple, ast.List)) else [t]
        for t in flat:
            if isinstance(t, (ast.Attribute, ast.Subscript)):
                r = root_name(t)
                if r in carriers:
                    found.append((f"state-kept-on-seed-carrier:{ast.unparse(t)}", t.lineno))
                elif r is not None and r not in locs and val is not None and mentions(val, derived):
                    found.append((f"state-kept-in-module-state:{ast.unparse(t)}", t.lineno))
            elif isinstance(t, ast.Name) and t.id in outer and val is not None and mentions(val, derived):
                found.append((f"state-kept-in-module-state:{t.id}", t.lineno))
    # the same through calls
    for x in ast.walk(node):
        if not isinstance(x, ast.Call):
            continue
        d = dotted(x.func)
        args = list(x.args) + [k.value for k in x.keywords]
        if d in SETATTR_CALLS and x.args:
            r = root_name(x.args[0])
            if r in carriers:
                what = ast.unparse(x.args[1]).strip("'\"") if len(x.args) > 1 else "?"
                found.append((f"state-kept-on-seed-carrier:{ast.unparse(x.args[0])}.{what}", x.lineno))
        elif isinstance(x.func, ast.Attribute) and x.func.attr in ("__setattr__", "__delattr__", "__setitem__", "__delitem__"):
            r = root_name(x.func.value)
            if r in carriers:
                found.append((f"state-kept-on-seed-carrier:{ast.unparse(x.func.value)}.{x.func.attr}", x.lineno))
        elif isinstance(x.func, ast.Attribute) and x.func.attr in ("update", "setdefault", "append", "add", "extend", "insert", "pop", "clear"):
            recv = x.func.value
            r = root_name(recv)
            through_dict = any(isinstance(y, ast.Attribute) and y.attr == "__dict__" for y in ast.walk(recv)) or \
                any(isinstance(y, ast.Call) and dotted(y.func) == "vars" for y in ast.walk(recv))
            if r in carriers and (through_dict or (r == "self" and isinstance(recv, ast.Attribute))):
                found.append((f"state-kept-on-seed-carrier:{ast.unparse(recv)}.{x.func.attr}", x.lineno))
            elif r is not None and r not in locs and r not in carriers and isinstance(recv, ast.Name) and any(mentions(a, derived) for a in args) \
                    and x.func.attr in ("update", "setdefault", "append", "add", "extend", "insert"):
                found.append((f"state-kept-in-module-state:{ast.unparse(recv)}.{x.func.attr}", x.lineno))
    seen, out = set(), []
    for w, ln in sorted(found, key=lambda t: (t[1], t[0])):
        if (w, ln) not in seen:
            seen.add((w, ln))
            out.append((w, ln))
    return out


def analyse(fn: Fn, by_simple: dict[str, list[Fn]]):
    """Returns list of statements (kind, ...) in source order."""
    derived: set[str] = set(fn.rand_params) | {"self." + a for a in fn.self_rand}
    if "context" in derived:
        derived |= {"context.rng", "context.torch_rng"}
    if "options" in derived:
        derived |= {"options.rng"}
    body = strip_doc(fn.node.body)
    out = []

    # fixpoint of derived names (assignments may come in any order inside loops)
    changed = True
    while changed:
        changed = False
        for x in ast.walk(fn.node):
            tgts, val = [], None
            if isinstance(x, ast.Assign):
                tgts, val = x.targets, x.value
            elif isinstance(x, ast.AnnAssign) and x.value is not None:
                tgts, val = [x.target], x.value
            elif isinstance(x, ast.NamedExpr):
                tgts, val = [x.target], x.value
            elif isinstance(x, (ast.For, ast.comprehension)):
                tgts, val = [x.target], x.iter
            elif isinstance(x, ast.withitem) and x.optional_vars is not None:
                tgts, val = [x.optional_vars], x.context_expr
            if val is not None and mentions(val, derived):
                for t in tgts:
                    for e in (t.elts if isinstance(t, (ast.Tuple, ast.List)) else [t]):
                        d = dotted(e)
                        if d and d not in derived:
                            derived.add(d)
                            changed = True
            if isinstance(x, ast.Call) and isinstance(x.func, ast.Attribute):
                recv = dotted(x.func.value)
                if recv and recv not in derived and x.func.attr in ("manual_seed", "seed") and any(mentions(a, derived) for a in x.args):
                    derived.add(recv)
                    changed = True

    gens = {g for g in GEN_NAMES if g in derived}
    for x in ast.walk(fn.node):
        if isinstance(x, ast.Assign) and len(x.targets) == 1:
            t, v = dotted(x.targets[0]), x.value
            if t is None:
                continue
            if isinstance(v, ast.Subscript):
                v = v.value
            if isinstance(v, ast.Call):
                d = dotted(v.func)
                if d in GEN_MAKERS or (isinstance(v.func, ast.Attribute) and v.func.attr in ("random_generator", "spawn")):
                    gens.add(t)

    # names computed from ambient state (nthreads = get_parallel_config().threads; verbose = log.isEnabledFor(...))
    amb_names: dict[str, str] = {}
    changed = True
    while changed:
        changed = False
        for x in ast.walk(fn.node):
            tgts, val = [], None
            if isinstance(x, ast.Assign):
                tgts, val = x.targets, x.value
            elif isinstance(x, ast.AnnAssign) and x.value is not None:
                tgts, val = [x.target], x.value
            elif isinstance(x, ast.NamedExpr):
                tgts, val = [x.target], x.value
            elif isinstance(x, ast.AugAssign):
                tgts, val = [x.target], x.value
            elif isinstance(x, (ast.For, ast.comprehension)):
                tgts, val = [x.target], x.iter
            if val is None:
                continue
            w = ambient_of(val, amb_names)
            if w:
                for t in tgts:
                    for e in (t.elts if isinstance(t, (ast.Tuple, ast.List)) else [t]):
                        d = dotted(e)
                        if d and d not in amb_names and d not in derived:
                            amb_names[d] = w
                            changed = True
    cond_of = control_conditions(fn.node, amb_names) if fn.takes else {}

    def emit(stmt, c: ast.Call):
        """A use of the function's own randomness; wrapped when it is conditional on ambient state."""
        w = cond_of.get(id(c))
        if w is None and fn.takes:
            for a in list(c.args) + [k.value for k in c.keywords]:
                w = w or ambient_of(a, amb_names)
        if w:
            out.append(("Cond", w, stmt, c.lineno))
        else:
            out.append(stmt)

    def classify(arg):
        if arg is None:
            return "AOmitted"
        if isinstance(arg, ast.Constant) and arg.value is None:
            return "ANone"
        return "ASeeded" if mentions(arg, derived) else "AUnseeded"

    def visit_call(c: ast.Call):
        d = dotted(c.func)
        # draws on a derived generator
        if d in IGNORE_CALLS:
            return
        if isinstance(c.func, ast.Attribute):
            recv = dotted(c.func.value)
            meths = [f for f in by_simple.get(c.func.attr, []) if f.cls and f.takes]
            if recv in derived and recv != "self" and meths and not any(f.rand_params for f in meths):
                # a method of an object that carries the caller's randomness (options.random_generator())
                emit(("Call", meths[0].name if len(meths) == 1 else c.func.attr, "ASeeded", c.lineno), c)
                return
            if recv in gens and c.func.attr not in ("spawn", "manual_seed"):
                emit(("Draw", recv + "." + c.func.attr, c.lineno), c)
                return
            if recv in gens and c.func.attr == "spawn":
                # children are numbered by a counter kept in the parent: harmless unless how many are taken is ambient
                before = len(out)
                emit(("Draw", recv + ".spawn", c.lineno), c)
                if out[-1][0] != "Cond":
                    del out[before:]
                return
        # seed material that depends on the interpreter process (string hashing is randomised per process)
        if fn.takes and d in PROCESS_DEPENDENT:
            out.append(("Global", "process-dependent:" + d + "()", c.lineno))
            return
        # process-global randomness
        if d in GLOBAL_CALLS or (d and d.startswith(GLOBAL_PREFIXES) and d not in GLOBAL_OK):
            out.append(("Global", d, c.lineno))
            return
        # library consumers
        if d in LIB:
            key = LIB[d]
            arg = None
            if isinstance(key, int):
                if len(c.args) > key:
                    arg = c.args[key]
                for k in c.keywords:
                    if k.arg in ("seed", "entropy"):
                        arg = k.value
            else:
                for k in c.keywords:
                    if k.arg == key:
                        arg = k.value
            cl = classify(arg)
            if isinstance(key, int) and cl in ("AOmitted", "ANone"):
                out.append(("Global", d + "()", c.lineno))
            else:
                emit(("Call", "lib:" + d, cl, c.lineno), c)
            return
        # calls into the graph
        simple = None
        if isinstance(c.func, ast.Name):
            simple = c.func.id
        elif isinstance(c.func, ast.Attribute):
            simple = c.func.attr
            if simple.startswith("__"):
                return
        cands = [f for f in by_simple.get(simple, []) if f.takes] if simple else []
        if isinstance(c.func, ast.Name):
            cands = [f for f in cands if f.cls is None]          # a plain name is a module-level function ...
            if simple in CLASS_INIT:                               # ... or a constructor
                cands = [CLASS_INIT[simple]] if CLASS_INIT[simple].takes else []
        else:
            cands = [f for f in cands if f.cls is not None]
            recv = dotted(c.func.value)
            is_super = isinstance(c.func.value, ast.Call) and dotted(c.func.value.func) == "super"
            if (recv == "self" or is_super) and fn.cls:
                cands = [f for f in cands if related(f.cls, fn.cls)]
        if not cands:
            # any other callee that is handed the generator itself consumes it (DataFrame.sample(random_state=rng),
            # scipy / sklearn helpers, ...): an opaque library callee given the caller's generator
            handed = [a for a in list(c.args) + [k.value for k in c.keywords]
                      if isinstance(a, (ast.Name, ast.Attribute)) and dotted(a) in gens]
            if handed and d not in GEN_MAKERS and not (isinstance(c.func, ast.Name) and c.func.id in ("isinstance", "type", "id", "repr", "str", "print", "replace", "len")) \
                    and not (isinstance(c.func, ast.Attribute) and c.func.attr in ("format", "bind", "debug", "info", "warning")):
                emit(("Call", "lib:" + (d or simple or "?"), "ASeeded", c.lineno), c)
            return
        # the randomness parameter of the callee family (must agree)
        sigs = {(tuple(f.rand_params), tuple(f.pos.index(p) if p in f.pos else -1 for p in f.rand_params)) for f in cands if f.rand_params}
        if not sigs:
            # methods that carry their own generator (hold-out methods, rankers): nothing is passed
            return
        if len(sigs) > 1:
            raise TranslateError(f"{fn.name}: call to {simple} at line {c.lineno} resolves to functions with different randomness parameters")
        (names, poss), = sigs
        worst = None
        for pname, ppos in zip(names, poss):
            arg = None
            for k in c.keywords:
                if k.arg == pname:
                    arg = k.value
            if arg is None and 0 <= ppos < len(c.args):
                arg = c.args[ppos]
            if any(k.arg is None for k in c.keywords) or any(isinstance(a, ast.Starred) for a in c.args):
                raise TranslateError(f"{fn.name}: call to {simple} at line {c.lineno} uses * / ** arguments")
            cl = classify(arg)
            order = ["ASeeded", "AOmitted", "ANone", "AUnseeded"]
            if worst is None or order.index(cl) > order.index(worst):
                worst = cl
        target = cands[0].name if len(cands) == 1 else simple
        emit(("Call", target, worst, c.lineno), c)

    calls = sorted((x for x in ast.walk(fn.node) if isinstance(x, ast.Call)), key=lambda x: (x.lineno, x.col_offset))
    for c in calls:
        visit_call(c)
    if fn.takes:
        # truth-value tests of seed material: 0 and the empty sequence are valid seeds
        seedish = {d for d in derived if d.split(".")[-1] in ("rng", "seed", "spec", "random_state", "generator")}

        def truth_tested(e):
            if isinstance(e, ast.UnaryOp) and isinstance(e.op, ast.Not):
                return truth_tested(e.operand)
            if isinstance(e, ast.BoolOp):
                return next((t for t in map(truth_tested, e.values) if t), None)
            d = dotted(e) if isinstance(e, (ast.Name, ast.Attribute)) else None
            return d if d in seedish else None
        for x in ast.walk(fn.node):
            tests = []
            if isinstance(x, (ast.If, ast.While, ast.IfExp, ast.Assert)):
                tests.append(x.test)
            elif isinstance(x, ast.comprehension):
                tests += x.ifs
            elif isinstance(x, ast.BoolOp):
                tests.append(x)
            elif isinstance(x, ast.UnaryOp) and isinstance(x.op, ast.Not):
                tests.append(x)
            for t in tests:
                d = truth_tested(t)
                if d:
                    out.append(("Global", f"truth-value-of-seed:{d}", getattr(t, "lineno", 0)))
                    break
        # iteration in set order (differs between processes for strings)
        for x in ast.walk(fn.node):
            it = x.iter if isinstance(x, (ast.For, ast.comprehension)) else None
            if it is not None and (isinstance(it, (ast.Set, ast.SetComp)) or
                                   (isinstance(it, ast.Call) and dotted(it.func) in ("set", "frozenset"))):
                out.append(("Global", "process-dependent:set-order", getattr(it, "lineno", 0)))
        # state kept between calls on the seed carrier, by memoisation or in module state
        for w, ln in state_stores(fn, derived):
            out.append(("Global", w, ln))
    return out, sorted(derived)


CLASS_INIT: dict[str, Fn] = {}


def graph(src: Path):
    fns = collect(src)
    by_simple: dict[str, list[Fn]] = {}
    CLASS_INIT.clear()
    for f in fns:
        by_simple.setdefault(f.node.name, []).append(f)
        if f.cls and f.node.name == "__init__":
            CLASS_INIT[f.cls] = f
    rows = []
    for f in fns:
        if not f.takes:
            # functions without randomness of their own must not use global randomness either
            stmts, _ = analyse(f, by_simple)
            gl = [s for s in stmts if s[0] == "Global"]
            if gl:
                rows.append({"name": f.name, "module": f.module, "takes": False, "primitive": f.name in PRIMITIVES, "stmts": gl})
            continue
        stmts, derived = analyse(f, by_simple)
        rows.append({"name": f.name, "module": f.module, "takes": True, "primitive": f.name in PRIMITIVES, "stmts": stmts})
    names = {r["name"] for r in rows}
    for must in ("sample_users", "sample_records", "crossfold_users", "crossfold_records", "Pipeline.train", "SampleN.__call__",
                 "SampleFrac.__init__", "ALSBase.training_loop", "FunkSVDScorer.train", "FlexMFScorerBase.prepare_context",
                 "BiasedSVDScorer.train", "MatrixRelationshipSet.sample_negatives", "StochasticTopNRanker.__call__", "RandomSelector.__call__"):
        if must not in names:
            raise TranslateError(f"expected function {must} not found among the randomness-taking functions")
    return rows


# ---------------------------------------------------------------------------------------------
# shapes
# ---------------------------------------------------------------------------------------------


def find(tree, cls, name):
    body = tree.body
    if cls:
        cs = [n for n in body if isinstance(n, ast.ClassDef) and n.name == cls]
        if len(cs) != 1:
            raise TranslateError(f"class {cls} not found")
        body = cs[0].body
    fs = [n for n in body if isinstance(n, ast.FunctionDef) and n.name == name]
    if len(fs) != 1:
        raise TranslateError(f"{cls}.{name} not found exactly once")
    return fs[0]


def shape_random_generator(src):
    tree = ast.parse((src / "lenskit/random.py").read_text())
    f = find(tree, None, "random_generator")
    body = [s for s in strip_doc(f.body) if not isinstance(s, ast.Global)]
    if len(body) != 1 or not isinstance(body[0], ast.If):
        raise TranslateError("random_generator: body is not a single if")
    i = body[0]
    if ast.unparse(i.test) != "seed is None and _global_rng is not None":
        raise TranslateError(f"random_generator: test is `{ast.unparse(i.test)}`")
    if [ast.unparse(s) for s in i.body] != ["return _global_rng"] or [ast.unparse(s) for s in i.orelse] != ["return default_rng(seed)"]:
        raise TranslateError("random_generator: branches are not `return _global_rng` / `return default_rng(seed)`")
    return True


def shape_deriving(src):
    tree = ast.parse((src / "lenskit/random.py").read_text())
    cls = [n for n in tree.body if isinstance(n, ast.ClassDef) and n.name == "DerivingRNG"][0]
    for m in cls.body:
        if isinstance(m, ast.FunctionDef) and m.name != "__init__":
            for x in ast.walk(m):
                if isinstance(x, ast.Attribute) and isinstance(x.value, ast.Name) and x.value.id == "self" and isinstance(x.ctx, (ast.Store, ast.Del)):
                    raise TranslateError(f"DerivingRNG.{m.name} assigns self.{x.attr}")
    f = find(tree, "DerivingRNG", "__call__")
    body = strip_doc(f.body)
    if len(body) != 1 or not isinstance(body[0], ast.If):
        raise TranslateError("DerivingRNG.__call__: body is not a single if")
    i = body[0]
    if ast.unparse(i.test) != "query is None or query.user_id is None":
        raise TranslateError(f"DerivingRNG.__call__: test is `{ast.unparse(i.test)}`")
    if [ast.unparse(s) for s in i.body] != ["return np.random.default_rng(self.seed.spawn(1)[0])"]:
        raise TranslateError("DerivingRNG.__call__: anonymous branch is not a spawn of the base seed")
    want = ["seed = make_seed(self.seed, query.user_id)", "return default_rng(seed)"]
    if [ast.unparse(s) for s in i.orelse] != want:
        raise TranslateError(f"DerivingRNG.__call__: identified branch is {[ast.unparse(s) for s in i.orelse]}")
    # derivable_rng: (seed, 'user') and 'user' build a DerivingRNG, anything else a fixed generator
    d = find(tree, None, "derivable_rng")
    rets = [ast.unparse(x.value) for x in ast.walk(d) if isinstance(x, ast.Return)]
    if rets != ["DerivingRNG(SeedSequence())", "DerivingRNG(make_seed(seed))", "FixedRNG(default_rng(spec))"]:
        raise TranslateError(f"derivable_rng: returns {rets}")
    return True


def shape_rankers(src):
    out = []
    for rel, cls in (("lenskit/basic/random.py", "RandomSelector"), ("lenskit/basic/random.py", "SoftmaxRanker"),
                     ("lenskit/stochastic/_ranker.py", "StochasticTopNRanker")):
        tree = ast.parse((src / rel).read_text())
        f = find(tree, cls, "__call__")
        for x in ast.walk(f):
            if isinstance(x, ast.Attribute) and isinstance(x.value, ast.Name) and x.value.id == "self" and isinstance(x.ctx, (ast.Store, ast.Del)):
                raise TranslateError(f"{cls}.__call__ assigns self.{x.attr}")
            if isinstance(x, ast.Call) and isinstance(x.func, ast.Name) and x.func.id in ("setattr", "delattr"):
                raise TranslateError(f"{cls}.__call__ uses {x.func.id}")
        gens = [s for s in ast.walk(f) if isinstance(s, ast.Assign) and ast.unparse(s.value) == "self._rng_factory(query)"]
        if len(gens) != 1 or ast.unparse(gens[0].targets[0]) != "rng":
            raise TranslateError(f"{cls}.__call__: the generator is not `rng = self._rng_factory(query)`")
        # every random draw goes through that generator
        for x in ast.walk(f):
            if isinstance(x, ast.Call):
                d = dotted(x.func)
                if d and (d.startswith(GLOBAL_PREFIXES) and d not in GLOBAL_OK):
                    raise TranslateError(f"{cls}.__call__ uses {d}")
        init = find(tree, cls, "__init__")
        if not any(ast.unparse(s) == "self._rng_factory = derivable_rng(self.config.rng)" for s in init.body):
            raise TranslateError(f"{cls}.__init__ does not build its factory from the configured seed")
        out.append(cls)
    return out


def shape_fanout(src):
    """fork/join loops: fixed-size consecutive chunks forked in index order, joined in the same order."""
    out = []
    for rel, fname, size, total, kind in (
        ("lenskit/als/_explicit.py", "_train_update_fanout", "chunking.chunk_size", "ctx.nrows", "scatter"),
        ("lenskit/als/_implicit.py", "_train_implicit_cholesky_fanout", "chunks.chunk_size", "ctx.nrows", "scatter"),
        ("lenskit/knn/item.py", "_sim_blocks", "block_size", "nitems", "concat"),
    ):
        tree = ast.parse((src / rel).read_text())
        f = find(tree, None, fname)
        loops = [s for s in ast.walk(f) if isinstance(s, ast.For)]
        fork = [l for l in loops if ast.unparse(l.iter) == f"range(0, {total}, {size})"]
        if len(fork) != 1 or ast.unparse(fork[0].target) != "start":
            raise TranslateError(f"{fname}: no `for start in range(0, {total}, {size})`")
        fb = fork[0].body
        if ast.unparse(fb[0]) != f"end = min(start + {size}, {total})":
            raise TranslateError(f"{fname}: chunk end is `{ast.unparse(fb[0])}`")
        forks = [x for s in fb for x in ast.walk(s) if isinstance(x, ast.Call) and dotted(x.func) == "torch.jit.fork"]
        if len(forks) != 1 or not ({"start", "end"} <= {ast.unparse(a) for a in forks[0].args}):
            raise TranslateError(f"{fname}: the chunk task is not forked with (start, end)")
        appends = [x for s in fb for x in ast.walk(s) if isinstance(x, ast.Call) and isinstance(x.func, ast.Attribute) and x.func.attr == "append"]
        if len(appends) != 1:
            raise TranslateError(f"{fname}: forked task is not appended to one list")
        lst = ast.unparse(appends[0].func.value)
        joins = [l for l in loops if ast.unparse(l.iter) == lst]
        if len(joins) != 1:
            raise TranslateError(f"{fname}: no join loop over `{lst}` in list order")
        jb = joins[0].body
        if not any(isinstance(x, ast.Call) and isinstance(x.func, ast.Attribute) and x.func.attr == "wait" for s in jb for x in ast.walk(s)):
            raise TranslateError(f"{fname}: join loop does not wait for the task")
        if kind == "scatter":
            writes = [s for s in jb if isinstance(s, ast.Assign) and ast.unparse(s.targets[0]) == "ctx.left[start:end, :]"]
            if len(writes) != 1 or ast.unparse(writes[0].value) != "M":
                raise TranslateError(f"{fname}: joined rows are not written to ctx.left[start:end, :]")
        else:
            apps = [ast.unparse(x.func.value) for s in jb for x in ast.walk(s) if isinstance(x, ast.Call) and isinstance(x.func, ast.Attribute) and x.func.attr == "append"]
            cats = [ast.unparse(x.args[0]) for x in ast.walk(f) if isinstance(x, ast.Call) and dotted(x.func) == "torch.cat"]
            if sorted(apps) != sorted(cats) or len(apps) != 3:
                raise TranslateError(f"{fname}: per-block results {apps} are not the concatenated lists {cats}")
        out.append((fname, kind))
    return out


def shape_options(src):
    """TrainingOptions: which plan random_generator() follows when ONE options object serves several trainings."""
    tree = ast.parse((src / "lenskit/training.py").read_text())
    cls = [n for n in tree.body if isinstance(n, ast.ClassDef) and n.name == "TrainingOptions"]
    if len(cls) != 1:
        raise TranslateError("class TrainingOptions not found exactly once")
    find(tree, "TrainingOptions", "random_generator")
    reasons = []
    for m in cls[0].body:
        if isinstance(m, (ast.FunctionDef, ast.AsyncFunctionDef)):
            fn = Fn("lenskit/training.py", "TrainingOptions", m)
            fn.self_rand = fn.self_rand or ["rng"]          # the options object is the seed carrier in every method
            reasons += [f"{m.name}: {w} (line {ln})" for w, ln in state_stores(fn, {"self", "self.rng"} | set(fn.rand_params))]
    return ("Memoised" if reasons else "FreshPerCall"), reasons


def const_int(e):
    """Value of an integer constant expression (literals combined with << ** * + -), else None."""
    if isinstance(e, ast.Constant) and isinstance(e.value, int) and not isinstance(e.value, bool):
        return e.value
    if isinstance(e, ast.BinOp):
        a, b = const_int(e.left), const_int(e.right)
        if a is None or b is None:
            return None
        try:
            if isinstance(e.op, ast.LShift) and 0 <= b < 64:
                return a << b
            if isinstance(e.op, ast.Pow) and 0 <= b < 64 and abs(a) <= 1024:
                return a ** b
            if isinstance(e.op, ast.Mult):
                return a * b
            if isinstance(e.op, ast.Add):
                return a + b
            if isinstance(e.op, ast.Sub):
                return a - b
        except (OverflowError, ValueError):
            return None
    return None


def size_thresholds(src: Path, low=1 << 12, high=1 << 26) -> list[int]:
    """Integer constants of the graph sources that sizes are compared with: module-level NAME = <constant> that is
    used in a comparison somewhere in the module, and constants written directly in comparisons.  The relational runs
    train at sizes beyond the largest of them (code paths that only exist for large inputs)."""
    found = set()
    for rel in MODULES:
        f = src / rel
        if not f.exists():
            continue
        tree = ast.parse(f.read_text())
        consts = {}
        for n in tree.body:
            tgt, val = None, None
            if isinstance(n, ast.Assign) and len(n.targets) == 1 and isinstance(n.targets[0], ast.Name):
                tgt, val = n.targets[0].id, n.value
            elif isinstance(n, ast.AnnAssign) and isinstance(n.target, ast.Name) and n.value is not None:
                tgt, val = n.target.id, n.value
            v = const_int(val) if val is not None else None
            if tgt and v is not None:
                consts[tgt] = v
        for x in ast.walk(tree):
            if isinstance(x, ast.Compare):
                for e in [x.left] + list(x.comparators):
                    v = const_int(e)
                    if v is None and isinstance(e, ast.Name):
                        v = consts.get(e.id)
                    if v is not None and low <= v <= high:
                        found.add(v)
    return sorted(found)


def extract(src: Path) -> dict:
    return {"graph": graph(src), "random_generator": shape_random_generator(src), "deriving": shape_deriving(src),
            "rankers": shape_rankers(src), "fanout": shape_fanout(src), "options": shape_options(src)}


HEADER = """(* GENERATED on every run by harness/translate/c11.py from src/lenskit -- do not edit.
   rng_graph: every function that takes randomness, reduced to draws, calls to other such functions
   (with how their randomness argument is supplied) and uses of process-global randomness. *)
From Coq Require Import List Bool String.
From LK Require Import Model.C11_seeds.
Import ListNotations.
Local Open Scope string_scope.

"""


def cs(s):
    return '"' + s.replace('"', "'") + '"'


def to_gallina(info) -> str:
    out = [HEADER, "Definition rng_graph : list fn := [\n"]
    rows = []
    for r in info["graph"]:
        st = []
        def one(s):
            if s[0] == "Draw":
                return "SDraw"
            if s[0] == "Call":
                return f"SCall {cs(s[1])} {s[2]}"
            if s[0] == "Cond":
                return f"SCond {cs(s[1])} ({one(s[2])})"
            return f"SGlobal {cs(s[1])}"
        for s in r["stmts"]:
            st.append(one(s))
        rows.append(f"  {{| fn_name := {cs(r['name'])}; fn_takes := {'true' if r['takes'] else 'false'}; "
                    f"fn_primitive := {'true' if r['primitive'] else 'false'};\n     fn_body := [" + "; ".join(st) + "] |}")
    out.append(";\n".join(rows) + "\n].\n\n")
    names = {r["name"] for r in info["graph"]}
    fams = {}
    for r in info["graph"]:
        for s in r["stmts"]:
            if s[0] == "Cond":
                s = s[2]
            if s[0] == "Call" and not s[1].startswith("lib:") and s[1] not in names:
                fams.setdefault(s[1], sorted(n for n in names if n.split(".")[-1] == s[1] and "." in n))
    out.append("(* method families: a call through an object resolves to one of these, decided by the objects at hand *)\n")
    out.append("Definition families : list (string * list string) := [\n"
               + ";\n".join(f"  ({cs(k)}, [" + "; ".join(cs(m) for m in v) + "])" for k, v in sorted(fams.items())) + "\n].\n\n")
    out.append(f"Definition random_generator_shape_ok : bool := {'true' if info['random_generator'] else 'false'}.\n")
    out.append("(* random_generator(seed): the global generator is used only when no seed is given AND one was installed *)\n")
    out.append("Definition random_generator_plan (seed_given global_set : bool) : rg_plan :=\n"
               "  if negb seed_given && global_set then UseGlobal else FromArgument.\n\n")
    out.append(f"Definition deriving_shape_ok : bool := {'true' if info['deriving'] else 'false'}.\n")
    out.append("(* DerivingRNG.__call__: anonymous -> spawn (stateful), identified -> make_seed(base, user) (stateless) *)\n")
    out.append("Definition deriving_plan (has_user : bool) : derive_plan := if has_user then DeriveFromUser else SpawnNext.\n\n")
    plan, why = info["options"]
    out.append("(* TrainingOptions.random_generator(): FreshPerCall = every call builds a generator from the seed alone, nothing is kept on\n"
               "   the options object; Memoised = some method of TrainingOptions keeps state on the object"
               + ("".join("\n   - " + w.replace("(*", "( *").replace("*)", "* )") for w in why)) + " *)\n")
    out.append(f"Definition training_options_plan : opt_plan := {plan}.\n\n")
    out.append("Definition stateless_rankers : list string := [" + "; ".join(cs(c) for c in info["rankers"]) + "].\n")
    out.append("Definition fanout_loops : list (string * join_kind) := ["
               + "; ".join(f"({cs(n)}, {'JScatter' if k == 'scatter' else 'JConcat'})" for n, k in info["fanout"]) + "].\n")
    return "".join(out)


def translate(src: Path) -> dict:
    return {"Gen/C11_rng.v": to_gallina(extract(src))}


if __name__ == "__main__":
    import sys
    info = extract(Path(sys.argv[1] if len(sys.argv) > 1 else "/repo/src"))
    for r in info["graph"]:
        print(r["name"], "takes" if r["takes"] else "", "PRIM" if r["primitive"] else "")
        for s in r["stmts"]:
            print("    ", s)
    print({k: v for k, v in info.items() if k != "graph"})
