"""Regenerates coq/Gen/C12_shape.v from batch/{_runner,_results,__init__}.py and
parallel/{invoker,pool,sequential,worker,serialize}.py (DESIGN 2.3 A).

Fail-closed extractor: each function that carries bookkeeping of C12 (task order, result attribution,
shared-memory buffer lengths, shutdown) must consist of exactly the expected statements once doc strings
and logging calls are removed; statements are compared through ast.unparse, so formatting and comments are
free but any change of an expression, an added or a dropped statement makes the translation fail.  The one
recognised alternative (shm.buf used without the recorded length) is translated, so that the theorem about
it fails with a model that still computes.
"""

from __future__ import annotations

import ast

from . import pyq
from .pyq import TranslateError

HEADER = """(* GENERATED on every run by harness/translate/c12.py from src/lenskit/batch/*.py and
   src/lenskit/parallel/*.py -- do not edit. *)
From Coq Require Import List.
From LK Require Import Model.C12_shapes.
Import ListNotations.

"""

LOG_PREFIXES = ("_log.", "log.")


def _is_log(st) -> bool:
    if isinstance(st, ast.Expr) and isinstance(st.value, ast.Call):
        d = pyq.dotted(st.value.func) or ""
        return d.startswith(LOG_PREFIXES) and d.split(".")[-1] in ("debug", "info", "warn", "warning", "error", "trace")
    if isinstance(st, ast.Assign) and len(st.targets) == 1 and isinstance(st.targets[0], ast.Name) and st.targets[0].id == "log":
        return isinstance(st.value, ast.Call) and (pyq.dotted(st.value.func) or "").endswith(".bind")
    return False


def clean(stmts):
    out = []
    for st in pyq.strip_doc(list(stmts)):
        if _is_log(st):
            continue
        for fld in ("body", "orelse", "finalbody"):
            if hasattr(st, fld) and isinstance(getattr(st, fld), list):
                setattr(st, fld, clean(getattr(st, fld)) or ([ast.Pass()] if fld == "body" else []))
        if isinstance(st, ast.Try):
            for h in st.handlers:
                h.body = clean(h.body) or [ast.Pass()]
        if isinstance(st, ast.Match):
            for c in st.cases:
                c.body = clean(c.body) or [ast.Pass()]
        out.append(st)
    return out


def body_src(tree, cls, name):
    f = pyq.find_def(tree, cls, name)
    return [ast.unparse(s) for s in clean(f.body)], f


def expect(tree, cls, name, want, where):
    got, _ = body_src(tree, cls, name)
    want = [ast.unparse(ast.parse(w)) for w in want]
    if got != want:
        raise TranslateError(f"{where}:{cls + '.' if cls else ''}{name} is not of the expected shape; statements: {got}")


def translate(src) -> dict:
    lk = src / "lenskit"
    seq = pyq.parse(lk / "parallel" / "sequential.py")
    pool = pyq.parse(lk / "parallel" / "pool.py")
    wrk = pyq.parse(lk / "parallel" / "worker.py")
    ser = pyq.parse(lk / "parallel" / "serialize.py")
    inv = pyq.parse(lk / "parallel" / "invoker.py")
    run = pyq.parse(lk / "batch" / "_runner.py")
    res = pyq.parse(lk / "batch" / "_results.py")
    ini = pyq.parse(lk / "batch" / "__init__.py")

    # ---- the two map implementations --------------------------------------------------------
    expect(seq, "InProcessOpInvoker", "map",
           ["for task in tasks:\n    res = self.function(self.model, task)\n    yield res"], "sequential.py")
    expect(seq, "InProcessOpInvoker", "__init__", ["self.model = model", "self.function = func"], "sequential.py")
    expect(pool, "ProcessPoolOpInvoker", "map", ["return self.pool.map(worker.worker, self._task_iter(tasks))"], "pool.py")
    expect(pool, "ProcessPoolOpInvoker", "_task_iter", ["for task in tasks:\n    yield task"], "pool.py")
    expect(wrk, None, "worker", ["res = __work_context.func(__work_context.model, arg)", "return res"], "worker.py")
    # the worker initialiser, statement by statement: everything it does in a fresh worker process is one of the recognised
    # steps (none of which touches process-wide state other than the warning filters and the work context); any other
    # statement -- a call that changes the numeric mode, default dtype, error state, thread or RNG state of the worker,
    # say -- is refused, because the value of a task would then depend on the process it runs in
    got, _ = body_src(wrk, None, "initalize")
    known = {"global __work_context, __progress": "InitDeclareGlobals",
             "proc = mp.current_process()": "InitCurrentProcess",
             "warnings.filterwarnings('ignore', 'Sparse CSR tensor support is in beta state', UserWarning)": "InitFilterWarnings",
             "try:\n    __work_context = shm_deserialize(ctx)\nexcept Exception as e:\n    raise e": "InitRebuildContext"}
    known = {ast.unparse(ast.parse(k)): v for k, v in known.items()}
    init_steps = []
    for st in got:
        if st not in known:
            raise TranslateError(f"worker.py:initalize makes a step that is not recognised (it may change the environment tasks run in): `{st}`; statements: {got}")
        init_steps.append(known[st])
    if init_steps.count("InitRebuildContext") != 1:
        raise TranslateError(f"worker.py:initalize does not rebuild the context with shm_deserialize(ctx) exactly once: {got}")
    f = pyq.find_def(wrk, None, "initalize")
    if f.decorator_list or [a.arg for a in f.args.args] != ["ctx"]:
        raise TranslateError("worker.py:initalize is not a plain function of ctx")
    top = []
    for n in pyq.strip_doc(list(wrk.body)):
        if isinstance(n, (ast.Import, ast.ImportFrom)):
            continue
        top.append(getattr(n, "name", None) or ast.unparse(n))
    if top != ["_log = get_logger(__name__)", "__work_context: WorkerData", "WorkerData", "initalize", "worker"]:
        raise TranslateError(f"worker.py: unexpected module-level statements (they run in every worker process at import): {top}")
    if pyq.find_def(wrk, None, "worker").decorator_list:
        raise TranslateError("worker.py:worker is decorated")
    # the worker process itself: logging context, lenskit's thread configuration, then the executor's loop
    expect(pool, "LensKitProcess", "run",
           ["with WorkerContext(self._log_config) as ctx:\n"
            "    initialize(self._parallel_config)\n"
            "    task = None\n"
            "    try:\n"
            "        with Task('worker process', subprocess=True) as task:\n"
            "            ctx.send_task(task)\n"
            "            super().run()\n"
            "    finally:\n"
            "        if task is not None:\n"
            "            ctx.send_task(task)"], "pool.py")
    expect(pool, "LensKitMPContext", "Process", ["return LensKitProcess(self._log_config, self._parallel_config, *args, **kwargs)"], "pool.py")
    got, _ = body_src(pool, "ProcessPoolOpInvoker", "__init__")
    need = ["self.manager = SharedMemoryManager()", "self.manager.start()",
            "try:\n    job = worker.WorkerData(func, model)\n    job = shm_serialize(job, self.manager)\n"
            "    self.pool = ProcessPoolExecutor(n_jobs, ctx, worker.initalize, (job,))\n"
            "except Exception as e:\n    self.manager.shutdown()\n    raise e"]
    for n in need:
        if ast.unparse(ast.parse(n)) not in got:
            raise TranslateError(f"pool.py:ProcessPoolOpInvoker.__init__ lacks `{n}`: {got}")
    # the worker data class carries exactly func and model
    wd = [n for n in wrk.body if isinstance(n, ast.ClassDef) and n.name == "WorkerData"]
    if len(wd) != 1 or [ast.unparse(s) for s in wd[0].body if isinstance(s, ast.AnnAssign)] != ["func: InvokeOp[M, A, R]", "model: M"]:
        raise TranslateError("worker.py:WorkerData is not (func, model)")
    # dispatch on n_jobs
    got, _ = body_src(inv, None, "invoker")
    tail = ("if n_jobs == 1:\n    from .sequential import InProcessOpInvoker\n    return InProcessOpInvoker(model, func)\n"
            "else:\n    from .pool import ProcessPoolOpInvoker\n    return ProcessPoolOpInvoker(model, func, n_jobs, worker_parallel=worker_parallel)")
    if not got or got[-1] != ast.unparse(ast.parse(tail)):
        raise TranslateError(f"invoker.py:invoker does not end in the sequential/pool dispatch: {got[-1:]}")
    # ---- release ----------------------------------------------------------------------------
    expect(inv, "ModelOpInvoker", "__exit__", ["self.shutdown()"], "invoker.py")
    expect(inv, "ModelOpInvoker", "__enter__", ["return self"], "invoker.py")
    expect(pool, "ProcessPoolOpInvoker", "shutdown", ["self.pool.shutdown()", "self.manager.shutdown()"], "pool.py")
    # ---- shared-memory pickling -----------------------------------------------------------------
    expect(ser, "SHMPickler", "_buffer_cb",
           ["mem = buffer.raw()",
            "if mem.nbytes == 0:\n    shm = None\nelif self.manager:\n    shm = self.manager.SharedMemory(mem.nbytes)\n"
            "else:\n    shm = SharedMemory(create=True, size=mem.nbytes)",
            "if shm is not None:\n    shm.buf[:mem.nbytes] = mem",
            "self.buffers.append((shm, mem.nbytes))"], "serialize.py")
    # which objects the pickler intercepts: tensors and tensor storages only; everything else -- NumPy arrays of
    # every memory layout included -- is left to the object's own protocol-5 reduction
    expect(ser, "SHMPickler", "reducer_override",
           ["if isinstance(obj, torch.Tensor):\n"
            "    if obj.is_sparse_csr:\n"
            "        return (torch.sparse_csr_tensor, (obj.crow_indices(), obj.col_indices(), obj.values(), obj.shape))\n"
            "    elif obj.layout == torch.sparse_csc:\n"
            "        return (torch.sparse_csc_tensor, (obj.ccol_indices(), obj.row_indices(), obj.values(), obj.shape))\n"
            "    else:\n"
            "        return reduce_tensor(obj)",
            "if isinstance(obj, torch.UntypedStorage):\n    return reduce_storage(obj)",
            "return NotImplemented"], "serialize.py")
    expect(ser, "SHMPickler", "__init__",
           ["super().__init__(file, protocol, fix_imports=fix_imports, buffer_callback=self._buffer_cb)", "self.manager = manager", "self.buffers = []"],
           "serialize.py")
    cls = [n for n in ser.body if isinstance(n, ast.ClassDef) and n.name == "SHMPickler"]
    if len(cls) != 1 or [ast.unparse(b) for b in cls[0].bases] != ["pickle.Pickler"] or cls[0].decorator_list or cls[0].keywords:
        raise TranslateError("serialize.py: SHMPickler is not a plain subclass of pickle.Pickler")
    members = [(type(n).__name__, getattr(n, "name", None) or ast.unparse(getattr(n, "target", n))) for n in pyq.strip_doc(list(cls[0].body))]
    if members != [("AnnAssign", "manager"), ("AnnAssign", "buffers"), ("FunctionDef", "__init__"), ("FunctionDef", "_buffer_cb"), ("FunctionDef", "reducer_override")] \
            or any(isinstance(n, ast.AnnAssign) and n.value is not None for n in cls[0].body) \
            or any(isinstance(n, ast.FunctionDef) and n.decorator_list for n in cls[0].body):
        raise TranslateError(f"serialize.py: SHMPickler has members other than manager, buffers, __init__, _buffer_cb, reducer_override "
                             f"(a dispatch table or another reduction hook changes what travels how): {members}")
    # nothing else in the module can take part in (un)pickling: imports, the logger, SHMData, SHMPickler, the two functions
    top = []
    for n in pyq.strip_doc(list(ser.body)):
        if isinstance(n, (ast.Import, ast.ImportFrom)):
            continue
        top.append(getattr(n, "name", None) or ast.unparse(n))
    if top != ["_log = logging.getLogger(__name__)", "SHMData", "SHMPickler", "shm_serialize", "shm_deserialize"]:
        raise TranslateError(f"serialize.py: unexpected module-level definitions (rebuild helpers, copyreg registrations ...): {top}")
    got, _ = body_src(ser, None, "shm_deserialize")
    if len(got) != 2 or got[1] != "return pickle.loads(data.pickle, buffers=buffers)":
        raise TranslateError(f"serialize.py:shm_deserialize is not of the expected shape: {got}")
    if got[0] == "buffers = [shm.buf[:n] if shm is not None else b'' for shm, n in data.buffers]":
        slice_kind = "SliceRecorded"
    elif got[0] == "buffers = [shm.buf if shm is not None else b'' for shm, n in data.buffers]":
        slice_kind = "WholeBuffer"
    else:
        raise TranslateError(f"serialize.py:shm_deserialize builds its buffers in an unrecognised way: {got[0]}")
    got, _ = body_src(ser, None, "shm_serialize")
    want = ["out = io.BytesIO()", "pkl = SHMPickler(out, pickle.HIGHEST_PROTOCOL, manager)", "pkl.dump(obj)", "data = out.getvalue()",
            "return SHMData(bytes(data), pkl.buffers)"]
    if got != want:
        raise TranslateError(f"serialize.py:shm_serialize is not of the expected shape: {got}")
    # ---- batch runner -----------------------------------------------------------------------------
    got, f = body_src(run, None, "_run_pipeline")
    want = ["(pipeline, invocations) = ctx", "(key, test_items) = req", "result = {}",
            "for inv in invocations:\n"
            "    inputs: dict[str, Any] = {}\n"
            "    if hasattr(key, 'user_id'):\n        inputs['query'] = key.user_id\n"
            "    match inv.items:\n        case 'test-items':\n            inputs['items'] = test_items\n"
            "    inputs.update(inv.extra_inputs)\n"
            "    nodes = inv.components.keys()\n"
            "    outs = pipeline.run_all(*nodes, **inputs)\n"
            "    for (cname, oname) in inv.components.items():\n        result[oname] = outs[cname]",
            "return (key, result)"]
    want = [ast.unparse(ast.parse(w)) for w in want]
    if got != want:
        raise TranslateError(f"_runner.py:_run_pipeline is not of the expected shape: {got}")
    # the run loop
    got, f = body_src(run, "BatchPipelineRunner", "run")
    withs = [s for s in f.body if isinstance(s, ast.With)]
    if len(withs) != 1:
        raise TranslateError("_runner.py:run has no single with-block")
    w = withs[0]
    items = [ast.unparse(i) for i in w.items]
    if not items or items[0] != "invoker((pipeline, self.invocations), _run_pipeline, n_jobs=self.n_jobs) as worker":
        raise TranslateError(f"_runner.py:run does not open invoker((pipeline, self.invocations), _run_pipeline, n_jobs=self.n_jobs): {items}")
    wb = [ast.unparse(s) for s in w.body]
    loop = ast.unparse(ast.parse("for (key, outs) in worker.map(test_iter):\n    for (cn, cr) in outs.items():\n        results.add_result(cn, key, cr)\n    progress.update()"))
    decl = ast.unparse(ast.parse("for inv in self.invocations:\n    for oname in inv.components.values():\n        results.add_output(oname)"))
    if loop not in wb or "results = BatchResults(key_type)" not in wb or decl not in wb:
        raise TranslateError(f"_runner.py:run loop is not `for key, outs in worker.map(test_iter): for cn, cr in outs.items(): results.add_result(cn, key, cr)`: {wb}")
    if not (wb.index("results = BatchResults(key_type)") < wb.index(decl) < wb.index(loop)):
        raise TranslateError("_runner.py:run creates or declares the results after the loop")
    if ast.unparse(f.body[-1]) != "return results":
        raise TranslateError("_runner.py:run does not return the results")
    # the three forms of test data keep their order
    forms = ast.unparse(ast.parse(
        "if isinstance(test_data, ItemListCollection):\n    test_iter = test_data.items()\n    key_type = test_data.key_type\n    n_users = len(test_data)\n"
        "elif isinstance(test_data, Mapping):\n    key_type = UserIDKey\n    test_iter = ((UserIDKey(k), v) for (k, v) in test_data.items())\n    n_users = len(test_data)\n"
        "else:\n    key_type = UserIDKey\n    test_data = list(test_data)\n    test_iter = ((_ensure_key(k), None) for k in test_data)\n    n_users = len(test_data)"))
    if forms not in got:
        raise TranslateError(f"_runner.py:run builds the task iterator in an unrecognised way")
    expect(res, "BatchResults", "add_output", ["if name not in self._data:\n    self._data[name] = ItemListCollection(self._key_schema)"], "_results.py")
    expect(res, "BatchResults", "add_result",
           ["self.add_output(name)",
            "try:\n    self._data[name].add(result, *key)\nexcept TypeError as e:\n    raise TypeError(f'invalid key {key} (for type {self._data[name].key_type})', e)"],
           "_results.py")
    expect(res, "BatchResults", "output", ["return self._data[name]"], "_results.py")
    for fn, setup, test, outname in (("recommend", "runner.recommend(n=n)", "users", "recommendations"),
                                     ("score", "runner.score()", "test", "scores"), ("predict", "runner.predict()", "test", "predictions")):
        expect(ini, None, fn, ["runner = BatchPipelineRunner(n_jobs=n_jobs)", setup, f"outs = runner.run(pipeline, {test})",
                               f"return outs.output('{outname}')"], "batch/__init__.py")
    expect(run, "BatchPipelineRunner", "score", ["self.add_invocation(InvocationSpec('score', {component: output}, 'test-items'))"], "_runner.py")
    expect(run, "BatchPipelineRunner", "predict", ["return self.score(component, output=output)"], "_runner.py")
    expect(run, "BatchPipelineRunner", "recommend", ["self.add_invocation(InvocationSpec('recommend', {component: output}, extra_inputs=extra))"], "_runner.py")

    text = HEADER
    text += "Definition seq_map_shape : map_shape := MapYieldEachInOrder.\n"
    text += "Definition pool_map_shape : map_shape := MapExecutorMap.\n"
    text += f"Definition shm_slice : slice_kind := {slice_kind}.\n"
    text += "Definition reducer_dispatch : list reduce_rule := [RTensorCSR; RTensorCSC; RTensorTorch; RStorageTorch; ROwnReduction].\n"
    text += "Definition run_pipeline_steps : list rp_step := [RPQueryFromUserId; RPItemsIfTestItems; RPExtraOverride; RPRunAll; RPCopyOutputs].\n"
    text += "Definition batch_loop_shape : batch_loop := AddEachOutputUnderItsKey.\n"
    text += "Definition helper_recommend : helper_setup := HSRecommendN.\n"     # the three `expect`s on batch/__init__.py above fail closed otherwise
    text += "Definition helper_score : helper_setup := HSScore.\n"
    text += "Definition helper_predict : helper_setup := HSPredict.\n"
    text += "Definition pool_shutdown : list shutdown_step := [ShutPool; ShutManager].\n"
    text += f"Definition worker_init_steps : list init_step := [{'; '.join(init_steps)}].\n"
    return {"Gen/C12_shape.v": text}
