"""Regenerates coq/Gen/C07_agg.v from metrics/predict.py and metrics/bulk.py (DESIGN 2.3 A)."""

from __future__ import annotations

import ast

from . import pyq
from .pyq import Fn, TranslateError, fail

HEADER = """(* GENERATED on every run by harness/translate/c07.py from
   src/lenskit/metrics/predict.py and src/lenskit/metrics/bulk.py -- do not edit. *)
From Coq Require Import ZArith QArith Qabs List Bool.
From LK Require Import Lib.QLib.
Import ListNotations.
Open Scope Q_scope.

"""


def _sqrt(self, n, args):
    (c, k), = args
    if k == "Q":
        return f"(RSqrt {c})", "Res"
    if k == "OptQ":
        return f"(res_sqrt_opt {c})", "Res"
    fail(n, "sqrt of unsupported kind")


def _mean(self, n, args):
    (c, k), = args
    if k == "Ser":
        return f"(ser_mean {c})", "OptQ"
    fail(n, "mean of non-series")


def _sum(self, n, args):
    (c, k), = args
    if k == "Ser":
        return f"(ser_sum {c})", "Q"
    fail(n, "sum of non-series")


def _abs(self, n, args):
    (c, k), = args
    if k == "Ser":
        return f"(ser_abs {c})", "Ser"
    if k == "Q":
        return f"(Qabs {c})", "Q"
    fail(n, "abs of unsupported kind")


def _len(self, n, args):
    (c, k), = args
    if k == "Ser":
        return f"(ser_len {c})", "Q"
    fail(n, "len of non-series")


def _align(self, n, args):
    # `self.align_scores(<first param>, <second param>)` is the aligned pair the Gallina function takes
    if len(n.args) != 2 or not all(isinstance(a, ast.Name) for a in n.args):
        fail(n, "align_scores called with something other than the two parameters")
    return "aligned", ("Tup", "Ser", "Ser")


def _float(self, n, args):
    (c, k), = args
    if k in ("Q", "OptQ"):
        return c, k
    fail(n, "float() of unsupported kind")


CALLS = {"float": _float, "np.sqrt": _sqrt, "np.mean": _mean, "np.sum": _sum, "np.abs": _abs, "len": _len,
         "self.align_scores": _align}
FRESH = {"np.abs", "np.sqrt", "np.sum", "np.mean"}
ATTRS = {"np.nan": ("RNone", "Res")}
METHODS = {
    ("Ser", "count"): lambda self, recv, args: (f"(ser_count {recv[0]})", "Q"),
    ("OptQ", "item"): lambda self, recv, args: recv,
    ("Q", "item"): lambda self, recv, args: recv,
}


def metric_defs(tree, cls: str, prefix: str) -> str:
    out = []
    # measure_list(self, predictions, test) / compute_list_data(self, output, test)
    for meth, ret, rty in (("measure_list", "Res", "res"), ("compute_list_data", ("Tup", "Q", "Q"), "(Q * Q)")):
        f = pyq.find_def(tree, cls, meth)
        params = [a.arg for a in f.args.posonlyargs + f.args.args]
        if len(params) != 3 or params[0] != "self":
            raise TranslateError(f"{cls}.{meth}: unexpected parameters {params}")
        env = {params[1]: ("_p1", "Opaque"), params[2]: ("_p2", "Opaque")}
        fn = Fn(env, ret, CALLS, ATTRS, METHODS, fresh_calls=FRESH, strict_inplace=True)
        out.append(fn.function(f, f"{prefix}_{meth}", "(aligned : series * series)", rty))
    f = pyq.find_def(tree, cls, "extract_list_metric")
    params = [a.arg for a in f.args.posonlyargs + f.args.args]
    fn = Fn({params[1]: (params[1], ("Tup", "Q", "Q"))}, "Res", CALLS, ATTRS, METHODS, fresh_calls=FRESH, strict_inplace=True)
    out.append(fn.function(f, f"{prefix}_extract_list_metric", f"({params[1]} : Q * Q)", "res"))
    f = pyq.find_def(tree, cls, "global_aggregate")
    params = [a.arg for a in f.args.posonlyargs + f.args.args]
    fn = Fn({params[1]: (params[1], ("List", ("Tup", "Q", "Q")))}, "Res", CALLS, ATTRS, METHODS, fresh_calls=FRESH, strict_inplace=True)
    out.append(fn.function(f, f"{prefix}_global_aggregate", f"({params[1]} : list (Q * Q))", "res"))
    return "\n".join(out)


def bulk_defs(tree) -> str:
    f = pyq.find_def(tree, "RunAnalysisResult", "list_metrics")
    params = [a.arg for a in f.args.posonlyargs + f.args.args]
    if params != ["self", "fill_missing"]:
        raise TranslateError(f"list_metrics parameters {params}")
    env = {"fill_missing": ("fill_missing", "Bool"),
           "self._list_metrics": ("tbl", "Tbl"), "self._defaults": ("defaults", "Dfl")}
    methods = dict(METHODS)

    def fillna(self, recv, args):
        if len(args) != 1 or args[0][1] != "Dfl":
            raise TranslateError("fillna with something other than the defaults")
        return f"(fill {recv[0]} {args[0][0]})", "Tbl"

    methods[("Tbl", "fillna")] = fillna
    fn = Fn(env, "Tbl", CALLS, ATTRS, methods)
    out = ["Section Bulk.\nContext {Tbl Dfl : Type} (fill : Tbl -> Dfl -> Tbl).\n"]
    out.append(fn.function(f, "list_metrics", "(tbl : Tbl) (defaults : Dfl) (fill_missing : bool)", "Tbl"))
    out.append("End Bulk.\n")

    # list_summary: `scores = self.list_metrics(fill_missing=True)` and, without grouping keys,
    # `scores.agg([...]).T` -- extracted as (fill flag, statistics list)
    g = pyq.find_def(tree, "RunAnalysisResult", "list_summary")
    body = pyq.strip_doc(g.body)
    if not (len(body) >= 2 and isinstance(body[0], ast.Assign) and isinstance(body[0].targets[0], ast.Name)):
        raise TranslateError("list_summary: first statement is not the scores assignment")
    sv = body[0].targets[0].id
    call = body[0].value
    if not (isinstance(call, ast.Call) and pyq.dotted(call.func) == "self.list_metrics" and not call.args
            and len(call.keywords) == 1 and call.keywords[0].arg == "fill_missing"
            and isinstance(call.keywords[0].value, ast.Constant) and isinstance(call.keywords[0].value.value, bool)):
        raise TranslateError("list_summary: scores are not taken from list_metrics(fill_missing=<const>)")
    flag = call.keywords[0].value.value
    iff = body[1]
    if not (isinstance(iff, ast.If) and isinstance(iff.test, ast.Name) and iff.test.id == "keys" and iff.orelse):
        raise TranslateError("list_summary: no `if keys:` / else structure")
    stats = None
    for st in iff.orelse:
        for n in ast.walk(st):
            if isinstance(n, ast.Call) and isinstance(n.func, ast.Attribute) and n.func.attr == "agg":
                if not (isinstance(n.func.value, ast.Name) and n.func.value.id == sv):
                    raise TranslateError("list_summary: agg applied to something other than the scores")
                lst = n.args[0]
                if not (isinstance(lst, ast.List) and all(isinstance(e, ast.Constant) for e in lst.elts)):
                    raise TranslateError("list_summary: agg argument is not a constant list")
                stats = [e.value for e in lst.elts]
    if stats is None:
        raise TranslateError("list_summary: no agg call")
    names = {"mean": "SMean", "median": "SMedian", "std": "SStd"}
    if any(s not in names for s in stats):
        raise TranslateError(f"list_summary: unknown statistics {stats}")
    out.append("Inductive stat := SMean | SMedian | SStd.\n")
    out.append(f"Definition list_summary_fill : bool := {'true' if flag else 'false'}.\n")
    out.append("Definition list_summary_stats : list stat := [" + "; ".join(names[s] for s in stats) + "].\n")
    return "\n".join(out)


def translate(src) -> dict:
    pred = pyq.parse(src / "lenskit" / "metrics" / "predict.py")
    bulk = pyq.parse(src / "lenskit" / "metrics" / "bulk.py")
    text = HEADER + metric_defs(pred, "RMSE", "rmse") + "\n" + metric_defs(pred, "MAE", "mae") + "\n" + bulk_defs(bulk)
    return {"Gen/C07_agg.v": text}
