"""Regenerates coq/Gen/C03_len.v from basic/topn.py and stats.py (DESIGN 2.3 A).

Generic part (also used by translate/c19.py): `IntFlow` follows the integer variable that ends up as
the list length (`n`) through a component's `__call__`, statement by statement, into Gallina written
against coq/Lib/PyInt.v.  Python `int | None` values, `x or y`, `is None`, comparisons that raise on
None, `min`, `len(<list>)` (an opaque parameter), early returns of an empty list and the final
`argtopn(.., n)` / `rng.choice(.., n, replace=False)` + `ItemList(.., ordered=True)` are understood;
statements that cannot touch the tracked variables are skipped; everything else fails closed.
"""

from __future__ import annotations

import ast

from . import pyq
from .pyq import TranslateError, dotted, fail

HEADER = """(* GENERATED on every run by harness/translate/{who}.py from
   {srcs} -- do not edit. *)
From Coq Require Import ZArith Bool List.
From LK Require Import Lib.PyInt.
Import ListNotations.
Open Scope Z_scope.

"""


def stores(node) -> set[str]:
    out = set()
    for n in ast.walk(node):
        if isinstance(n, ast.Name) and isinstance(n.ctx, (ast.Store, ast.Del)):
            out.add(n.id)
        if isinstance(n, (ast.Global, ast.Nonlocal)):
            out.update(n.names)
        if isinstance(n, ast.MatchAs) and n.name:
            out.add(n.name)
        if isinstance(n, ast.MatchStar) and n.name:
            out.add(n.name)
    return out


def has_node(node, kinds) -> bool:
    return any(isinstance(n, kinds) for n in ast.walk(node))


class IntFlow:
    """tracked: python names followed as `int | None` values; attrs: dotted attribute -> Gallina parameter."""

    def __init__(self, tracked: set[str], attrs: dict[str, str], take_calls=("argtopn", "rng.choice")):
        self.tracked = set(tracked)
        self.attrs = dict(attrs)
        self.lens: list[str] = []          # names x for which len(x) became the parameter len_x
        self.take_calls = take_calls
        self.facts: dict[str, str] = {}    # side facts extracted on the way (which list is indexed, ...)

    # ---- expressions: Gallina of type `res pyv` -----------------------------------------------
    def ex(self, n, env) -> str:
        if isinstance(n, ast.Name):
            if n.id in env:
                return f"(py_val {env[n.id]})"
            fail(n, f"name {n.id} is not a tracked integer")
        if isinstance(n, ast.Constant):
            if n.value is None:
                return "(py_val None)"
            if isinstance(n.value, bool) or not isinstance(n.value, int):
                fail(n, "constant is not an int or None")
            return f"(py_int ({n.value}))"
        if isinstance(n, ast.UnaryOp) and isinstance(n.op, ast.USub):
            if isinstance(n.operand, ast.Constant) and isinstance(n.operand.value, int) and not isinstance(n.operand.value, bool):
                return f"(py_int ({-n.operand.value}))"
            return f"(py_neg {self.ex(n.operand, env)})"
        if isinstance(n, ast.Attribute):
            d = dotted(n)
            if d in self.attrs:
                return f"(py_val {self.attrs[d]})"
            fail(n, f"attribute {d} outside the whitelist")
        if isinstance(n, ast.BoolOp):
            f = "py_or" if isinstance(n.op, ast.Or) else "py_and"
            parts = [self.ex(v, env) for v in n.values]
            code = parts[-1]
            for p in reversed(parts[:-1]):
                code = f"({f} {p} {code})"
            return code
        if isinstance(n, ast.IfExp):
            return f"(py_ifexp {self.cond(n.test, env)} {self.ex(n.body, env)} {self.ex(n.orelse, env)})"
        if isinstance(n, ast.BinOp) and isinstance(n.op, (ast.Add, ast.Sub)):
            f = "py_add" if isinstance(n.op, ast.Add) else "py_sub"
            return f"({f} {self.ex(n.left, env)} {self.ex(n.right, env)})"
        if isinstance(n, ast.Call) and not n.keywords:
            d = dotted(n.func)
            if d == "len" and len(n.args) == 1 and isinstance(n.args[0], ast.Name):
                x = n.args[0].id
                if x in env:
                    fail(n, "len() of a tracked integer")
                if x not in self.lens:
                    self.lens.append(x)
                return f"(py_int len_{x})"
            if d in ("min", "max") and len(n.args) == 2:
                return f"(py_{d} {self.ex(n.args[0], env)} {self.ex(n.args[1], env)})"
        fail(n, "expression outside the whitelist")

    # ---- conditions: Gallina of type `res bool` -----------------------------------------------
    def cond(self, n, env) -> str:
        if isinstance(n, ast.BoolOp):
            f = "c_or" if isinstance(n.op, ast.Or) else "c_and"
            parts = [self.cond(v, env) for v in n.values]
            code = parts[-1]
            for p in reversed(parts[:-1]):
                code = f"({f} {p} {code})"
            return code
        if isinstance(n, ast.UnaryOp) and isinstance(n.op, ast.Not):
            return f"(py_not {self.cond(n.operand, env)})"
        if isinstance(n, ast.Compare):
            if len(n.ops) != 1:
                fail(n, "chained comparison")
            op, rhs = n.ops[0], n.comparators[0]
            if isinstance(op, (ast.Is, ast.IsNot)):
                if not (isinstance(rhs, ast.Constant) and rhs.value is None):
                    fail(n, "`is` against something other than None")
                return f"({'py_is_none' if isinstance(op, ast.Is) else 'py_is_not_none'} {self.ex(n.left, env)})"
            tbl = {ast.Lt: "py_lt", ast.LtE: "py_le", ast.Gt: "py_gt", ast.GtE: "py_ge", ast.Eq: "py_eq", ast.NotEq: "py_ne"}
            if type(op) not in tbl:
                fail(n, "unsupported comparison")
            return f"({tbl[type(op)]} {self.ex(n.left, env)} {self.ex(rhs, env)})"
        return f"(py_truth {self.ex(n, env)})"

    # ---- statements ---------------------------------------------------------------------------
    def touches(self, node) -> bool:
        return bool(stores(node) & self.tracked)

    def skippable(self, s) -> bool:
        """A statement that can neither rebind a tracked variable nor leave the function normally."""
        if has_node(s, (ast.Return, ast.NamedExpr, ast.Yield, ast.YieldFrom, ast.Await, ast.Break, ast.Continue,
                        ast.FunctionDef, ast.Lambda, ast.ClassDef, ast.Try, ast.With, ast.While, ast.For)):
            return False
        if self.touches(s):
            return False
        if isinstance(s, (ast.Assign, ast.AnnAssign, ast.AugAssign, ast.Expr, ast.Match, ast.Pass)):
            return True
        if isinstance(s, ast.If):
            return all(self.skippable(b) or isinstance(b, ast.Raise) for b in s.body + s.orelse)
        return False

    def block(self, stmts, env, taken) -> str:
        """env: tracked python name -> Gallina variable currently holding it;
        taken: {python name: Gallina code of the length it was taken with} for index arrays / indexed lists."""
        if not stmts:
            raise TranslateError("control reaches the end of the function without a return")
        s, rest = stmts[0], stmts[1:]
        if isinstance(s, ast.Return):
            return self.ret(s, env, taken)
        if isinstance(s, ast.Assign) and len(s.targets) == 1 and isinstance(s.targets[0], ast.Name):
            name = s.targets[0].id
            tk = self.take(s.value, env, taken)
            if tk is not None:
                if name in self.tracked:
                    fail(s, "index array assigned to a tracked integer")
                t2 = dict(taken)
                t2[name] = tk
                return self.block(rest, env, t2)
            if name in self.tracked:
                code = self.ex(s.value, env)
                env2 = dict(env)
                env2[name] = name
                return f"bind {code} (fun {name} =>\n  {self.block(rest, env2, taken)})"
        if isinstance(s, ast.If) and (self.touches(s) or has_node(s, ast.Return)):
            c = self.cond(s.test, env)
            a = self.block(s.body + rest, env, taken)
            b = self.block(s.orelse + rest, env, taken)
            return f"bind {c} (fun c_ : bool => if c_\n  then ({a})\n  else ({b}))"
        if self.skippable(s):
            t2 = {k: v for k, v in taken.items() if k not in stores(s)}
            return self.block(rest, env, t2)
        fail(s, "statement outside the whitelist")

    def take(self, v, env, taken):
        """`argtopn(<x>, n)`, `rng.choice(len(<l>), n, replace=False)` or `<list>[<taken>]` -> code of n."""
        if isinstance(v, ast.Call):
            d = dotted(v.func)
            if d == "argtopn" and "argtopn" in self.take_calls and len(v.args) == 2 and not v.keywords:
                if not (isinstance(v.args[1], ast.Name) and v.args[1].id in env):
                    fail(v, "argtopn length is not a tracked variable")
                if not isinstance(v.args[0], ast.Name):
                    fail(v, "argtopn applied to something other than a name")
                self.facts["keys"] = v.args[0].id
                return env[v.args[1].id]
            if d == "rng.choice" and "rng.choice" in self.take_calls:
                kw = {k.arg: k.value for k in v.keywords}
                if not (len(v.args) == 2 and set(kw) == {"replace"} and isinstance(kw["replace"], ast.Constant) and kw["replace"].value is False):
                    fail(v, "rng.choice is not a draw without replacement of n positions")
                a0 = v.args[0]
                if not (isinstance(a0, ast.Call) and dotted(a0.func) == "len" and len(a0.args) == 1 and isinstance(a0.args[0], ast.Name)):
                    fail(v, "rng.choice population is not len(<list>)")
                self.facts["population"] = a0.args[0].id
                if not (isinstance(v.args[1], ast.Name) and v.args[1].id in env):
                    fail(v, "rng.choice size is not a tracked variable")
                return env[v.args[1].id]
        if isinstance(v, ast.Subscript) and isinstance(v.value, ast.Name) and isinstance(v.slice, ast.Name) and v.slice.id in taken:
            self.facts["indexed"] = v.value.id
            return taken[v.slice.id]
        return None

    def ret(self, s, env, taken) -> str:
        v = s.value
        if v is None:
            fail(s, "bare return")
        src = ast.unparse(v)
        if src == "ItemList(item_ids=[], scores=[], ordered=True)":
            return "ret (EmptyList true)"
        if isinstance(v, ast.Subscript) and isinstance(v.value, ast.Name) and ast.unparse(v.slice).startswith("np.zeros(0,"):
            return "ret (EmptyList false)"
        tk = self.take(v, env, taken)
        if tk is not None:                                   # `items[picked]`
            return f"ret (Take {tk} false)"
        if isinstance(v, ast.Call) and dotted(v.func) == "ItemList" and len(v.args) == 1:
            kw = {k.arg: k.value for k in v.keywords}
            inner = v.args[0]
            tk = taken.get(inner.id) if isinstance(inner, ast.Name) else self.take(inner, env, taken)
            if tk is None:
                fail(s, "returned list is not the input indexed by the drawn positions")
            if set(kw) - {"ordered"}:
                fail(s, "returned list overrides fields")
            o = kw.get("ordered")
            if o is not None and not (isinstance(o, ast.Constant) and isinstance(o.value, bool)):
                fail(s, "ordered flag is not a constant")
            return f"ret (Take {tk} {'true' if (o is not None and o.value) else 'false'})"
        fail(s, "return outside the whitelist")

    def function(self, fdef: ast.FunctionDef, gname: str, params: dict[str, str]) -> str:
        """params: python parameter -> Gallina variable (all tracked, of type pyv)."""
        env = dict(params)
        body = self.block(pyq.strip_doc(fdef.body), env, {})
        ps = " ".join(f"({g} : pyv)" for g in params.values())
        ps += "".join(f" ({a} : pyv)" for a in self.attrs.values())
        ps += "".join(f" (len_{x} : Z)" for x in self.lens)
        return f"Definition {gname} {ps} : res outcome :=\n  {body}.\n"


def call_def(tree, cls: str) -> ast.FunctionDef:
    f = pyq.find_def(tree, cls, "__call__")
    names = [a.arg for a in f.args.posonlyargs + f.args.args + f.args.kwonlyargs]
    if "n" not in names:
        raise TranslateError(f"{cls}.__call__ has no parameter n")
    return f


# ---- argtopn: which of the three plans is followed, and the NaN-masking recursion --------------

NAN_BLOCK = [
    "mask = ~invalid",
    "vxs = xs[mask]",
    "remap = np.arange(N)[mask]",
    "res = argtopn(vxs, n)",
    "return remap[res]",
]
PART_BLOCK = [
    "parts = np.argpartition(-xs, n)",
    "top_scores = xs[parts[:n]]",
    "top_sort = np.argsort(-top_scores)",
    "order = parts[top_sort]",
]
FULL_BLOCK = ["order = np.argsort(-xs)"]


def argtopn_plan(tree) -> str:
    f = pyq.find_def(tree, None, "argtopn")
    params = [a.arg for a in f.args.args]
    if params != ["xs", "n"]:
        raise TranslateError(f"argtopn parameters {params}")
    body = pyq.strip_doc(f.body)
    fl = IntFlow({"n", "N"}, {})
    env = {"n": "n", "N": "N"}

    def lines(stmts):
        return [ast.unparse(s) for s in stmts]

    if not (len(body) == 7 and isinstance(body[0], ast.If) and not body[0].orelse
            and lines(body[0].body) == ["return np.empty(0, np.int64)"]):
        raise TranslateError("argtopn: unexpected statement structure (empty-result guard)")
    c_empty = fl.cond(body[0].test, {"n": "n"})
    if lines(body[1:4]) != ["xs = np.asarray(xs)", "N = len(xs)", "invalid = np.isnan(xs)"]:
        raise TranslateError("argtopn: array / length / NaN-mask preamble changed: " + "; ".join(lines(body[1:4])))
    nanif = body[4]
    if not (isinstance(nanif, ast.If) and ast.unparse(nanif.test) == "np.any(invalid)" and not nanif.orelse
            and lines(nanif.body) == NAN_BLOCK):
        raise TranslateError("argtopn: NaN branch is no longer `argtopn(xs[~isnan], n)` mapped back through the mask")
    sel = body[5]
    if not (isinstance(sel, ast.If) and lines(sel.body) == PART_BLOCK and lines(sel.orelse) == FULL_BLOCK):
        raise TranslateError("argtopn: partition / full-sort branches changed")
    c_part = fl.cond(sel.test, env)
    if lines(body[6:]) != ["return order"]:
        raise TranslateError("argtopn: does not end in `return order`")
    return (
        "(* argtopn(xs, n): NaN entries are masked out and argtopn re-applied with the same n to the rest\n"
        "   (positions mapped back through the mask); on a NaN-free array of length N: *)\n"
        "Definition argtopn_plan (n_ N_ : Z) : res plan :=\n"
        "  let n : pyv := Some n_ in let N : pyv := Some N_ in\n"
        f"  bind {c_empty} (fun c_ : bool => if c_ then ret PEmpty else\n"
        f"  bind {c_part} (fun c_ : bool => if c_ then ret PPart else ret PFull)).\n"
    )


def topn_len(tree) -> str:
    f = call_def(tree, "TopNRanker")
    fl = IntFlow({"n"}, {"self.config.n": "config_n"}, take_calls=("argtopn",))
    text = fl.function(f, "topn_len", {"n": "n"})
    if fl.lens:
        raise TranslateError("TopNRanker: the list length now depends on len(...) of " + ", ".join(fl.lens))
    if fl.facts.get("indexed") != "items" or fl.facts.get("keys") != "scores":
        raise TranslateError(f"TopNRanker: ranks {fl.facts.get('keys')} / indexes {fl.facts.get('indexed')}, expected scores / items")
    # the array handed to argtopn must be the score field of the input list
    srcs = [ast.unparse(s) for s in ast.walk(f) if isinstance(s, ast.Assign) and any(isinstance(t, ast.Name) and t.id == "scores" for t in s.targets)]
    if srcs != ["scores = items.scores('numpy')"]:
        raise TranslateError(f"TopNRanker: scores are obtained as {srcs}")
    return text


# ---- pipeline/common.py: which node feeds which parameter of which component ---------------------

W_NAMES = {"query": "Nquery", "items": "Nitems", "n": "Nn", "history-lookup": "Nlookup", "candidate-selector": "Ncandsel",
           "candidates": "Ncandidates", "scorer": "Nscorer", "fallback-predictor": "Nfallback", "rating-merger": "Nmerger",
           "ranker": "Nranker", "recommender": "Nrecommender", "rating-predictor": "Npredictor"}
W_PARAMS = {"query": "Pquery", "items": "Pitems", "n": "Pn", "primary": "Pprimary", "backup": "Pbackup"}
W_IMPORTS = {"FallbackScorer": "lenskit.basic.composite", "UserTrainingHistoryLookup": "lenskit.basic.history",
             "BiasScorer": "lenskit.basic.bias", "UnratedTrainingItemsCandidateSelector": "lenskit.basic.candidates",
             "TopNRanker": "lenskit.basic.topn"}
W_HEADER = """(* GENERATED on every run by harness/translate/c03.py from
   src/lenskit/pipeline/common.py (RecPipelineBuilder.build, predict_pipeline; the bodies of
   RecPipelineBuilder.__init__ / scorer / ranker / predicts_ratings and of topn_pipeline are matched
   textually) -- do not edit. *)
From Coq Require Import List.
From LK Require Import Model.C03_graph.
Import ListNotations.

"""
# the thin parts around build(): what the builder's attributes are, and how topn_pipeline drives the builder
W_FIXED = {
    ("RecPipelineBuilder", "__init__"): [
        "from lenskit.basic.candidates import UnratedTrainingItemsCandidateSelector", "from lenskit.basic.topn import TopNRanker",
        "self._selector = UnratedTrainingItemsCandidateSelector()", "self._ranker = TopNRanker()"],
    ("RecPipelineBuilder", "scorer"): ["self._scorer = score"],
    ("RecPipelineBuilder", "ranker"): [
        "from lenskit.basic.topn import TopNRanker",
        "if rank is None:\n    self._ranker = TopNRanker(n=n)\nelse:\n    self._ranker = rank"],
    ("RecPipelineBuilder", "predicts_ratings"): [
        "self.is_predictor = True", "self._predict_transform = transform", "self._fallback = fallback"],
    (None, "topn_pipeline"): [
        "from lenskit.basic.bias import BiasScorer", "builder = RecPipelineBuilder()", "builder.scorer(scorer)", "builder.ranker(n=n)",
        "if predicts_ratings == 'raw':\n    builder.predicts_ratings()\nelif predicts_ratings:\n    builder.predicts_ratings(fallback=BiasScorer())",
        "return builder.build(name)"],
}
W_CLASS_DEFAULTS = ["is_predictor: bool = False", "_predict_transform: Component | None = None", "_fallback: Component | None = None"]


class WireExec:
    """Runs the body of a pipeline-assembling function on an abstract builder: `conds` gives the truth value of every
    condition the body may test (anything else fails closed); `comps` maps the source text of a component expression
    to the Gallina constructor.  Result: the node list in assembly order, aliases and the default node."""

    def __init__(self, conds: dict[str, bool], comps: dict[str, str], assigns: dict[str, dict] | None = None):
        self.conds = dict(conds)
        self.comps = dict(comps)
        self.assigns = assigns or {}        # allowed re-bindings of a python variable: source text -> changes of conds / comps
        self.builder = None
        self.env: dict[str, str] = {}       # python variable -> node name (python string)
        self.nodes: list[str] = []
        self.names: list[str] = []
        self.default = None
        self.done = False

    def nm(self, node, a) -> str:
        if not (isinstance(a, ast.Constant) and isinstance(a.value, str)):
            fail(node, "node name is not a string literal")
        if a.value not in W_NAMES:
            fail(node, f"node name {a.value!r} is not one the model of the standard pipelines knows")
        return a.value

    def src(self, node, a) -> str:
        if not (isinstance(a, ast.Name) and a.id in self.env):
            fail(node, "a connection is not a variable bound to a node of this pipeline")
        return W_NAMES[self.env[a.id]]

    def declare(self, node, name, text):
        if name in self.names:
            fail(node, f"node {name} is defined twice")
        self.names.append(name)
        self.nodes.append(text)

    def call(self, s, call: ast.Call, target: str | None):
        d = dotted(call.func)
        if self.builder is None or d is None or not d.startswith(self.builder + "."):
            fail(s, "call outside the pipeline builder")
        meth = d[len(self.builder) + 1:]
        if any(isinstance(a, ast.Starred) for a in call.args) or any(k.arg is None for k in call.keywords):
            fail(s, "starred arguments")
        if meth == "create_input":
            name = self.nm(s, call.args[0]) if call.args else fail(s, "create_input without a name")
            if call.keywords:
                fail(s, "create_input with keywords")
            self.declare(s, name, f"WInput {W_NAMES[name]}")
        elif meth == "add_component":
            if len(call.args) != 2:
                fail(s, "add_component is not (name, component, **connections)")
            name = self.nm(s, call.args[0])
            ctext = ast.unparse(call.args[1])
            if ctext not in self.comps:
                fail(s, f"component expression {ctext} is not one the model knows here")
            edges = []
            for k in call.keywords:
                if k.arg not in W_PARAMS:
                    fail(s, f"parameter {k.arg} is not one the model knows")
                edges.append(f"({W_PARAMS[k.arg]}, {self.src(s, k.value)})")
            self.declare(s, name, f"WComp {W_NAMES[name]} {self.comps[ctext]} [{'; '.join(edges)}]")
        elif meth == "use_first_of":
            if len(call.args) != 3 or call.keywords:
                fail(s, "use_first_of is not (name, primary, fallback)")
            name = self.nm(s, call.args[0])
            self.declare(s, name, f"WFirst {W_NAMES[name]} {self.src(s, call.args[1])} {self.src(s, call.args[2])}")
        elif meth == "alias":
            if len(call.args) != 2 or call.keywords:
                fail(s, "alias is not (name, node)")
            name = self.nm(s, call.args[0])
            self.declare(s, name, f"WAlias {W_NAMES[name]} {self.src(s, call.args[1])}")
            if target is not None:
                fail(s, "result of alias() is bound")
            return
        elif meth == "default_component":
            if len(call.args) != 1 or call.keywords or target is not None:
                fail(s, "default_component is not (name)")
            self.default = self.nm(s, call.args[0])
            return
        else:
            fail(s, f"builder method {meth} outside the whitelist")
        if target is not None:
            self.env[target] = name

    def run(self, stmts):
        for s in stmts:
            if self.done:
                fail(s, "statement after the return")
            if isinstance(s, ast.ImportFrom):
                for a in s.names:
                    if a.asname is not None or W_IMPORTS.get(a.name) != s.module or s.level:
                        fail(s, "import outside the whitelist")
            elif isinstance(s, ast.Assign) and len(s.targets) == 1 and isinstance(s.targets[0], ast.Name):
                t, v = s.targets[0].id, s.value
                text = ast.unparse(s)
                if text in self.assigns:
                    self.conds.update(self.assigns[text].get("conds", {}))
                    self.comps.update(self.assigns[text].get("comps", {}))
                elif isinstance(v, ast.Call) and dotted(v.func) == "PipelineBuilder" and self.builder is None:
                    if ast.unparse(v) != "PipelineBuilder(name=name)":
                        fail(s, "PipelineBuilder is not created as PipelineBuilder(name=name)")
                    self.builder = t
                elif isinstance(v, ast.Name) and v.id in self.env and t != self.builder:
                    self.env[t] = self.env[v.id]
                elif isinstance(v, ast.Call):
                    if t == self.builder or t in self.conds_vars():
                        fail(s, "a variable the conditions read is re-bound")
                    self.call(s, v, t)
                else:
                    fail(s, "assignment outside the whitelist")
            elif isinstance(s, ast.Expr) and isinstance(s.value, ast.Call):
                self.call(s, s.value, None)
            elif isinstance(s, ast.If):
                c = ast.unparse(s.test)
                if c not in self.conds:
                    fail(s, f"condition `{c}` is not one the model knows")
                self.run(s.body if self.conds[c] else s.orelse)
            elif isinstance(s, ast.Return):
                if self.builder is None or s.value is None or ast.unparse(s.value) != f"{self.builder}.build()":
                    fail(s, "does not return <builder>.build()")
                self.done = True
            else:
                fail(s, "statement outside the whitelist")

    def conds_vars(self):
        out = set()
        for c in self.conds:
            out.update(n.id for n in ast.walk(ast.parse(c)) if isinstance(n, ast.Name))
        return out - {"self"}

    def gallina(self) -> str:
        if not self.done:
            raise TranslateError("pipeline assembly does not end in a return")
        for n in self.nodes:
            pass
        d = "None" if self.default is None else f"(Some {W_NAMES[self.default]})"
        body = ";\n       ".join(self.nodes)
        return f"{{| w_nodes :=\n      [{body}];\n     w_default := {d} |}}"


def _fixed(tree, cls, name):
    f = pyq.find_def(tree, cls, name)
    got = [ast.unparse(x) for x in pyq.strip_doc(f.body)]
    if got != W_FIXED[(cls, name)]:
        raise TranslateError(f"{cls + '.' if cls else ''}{name} changed: {' ; '.join(got)[:300]}")


def wiring(tree) -> str:
    for (cls, name) in W_FIXED:
        _fixed(tree, cls, name)
    cs = [n for n in tree.body if isinstance(n, ast.ClassDef) and n.name == "RecPipelineBuilder"][0]
    defaults = [ast.unparse(x) for x in cs.body if isinstance(x, ast.AnnAssign) and x.value is not None]
    if defaults != W_CLASS_DEFAULTS:
        raise TranslateError(f"RecPipelineBuilder class-level defaults changed: {defaults}")
    build = pyq.find_def(tree, "RecPipelineBuilder", "build")
    if [a.arg for a in build.args.args] != ["self", "name"]:
        raise TranslateError("RecPipelineBuilder.build parameters changed")
    comps = {"UserTrainingHistoryLookup()": "CLookup", "self._selector": "CSelector", "self._scorer": "CScorer",
             "self._fallback": "CFallbackModel", "FallbackScorer()": "CMerger", "self._ranker": "CRanker"}
    out = {}
    for pred in (False, True):
        for fb in (False, True):
            for tr in (False, True):
                ex = WireExec({"self.is_predictor": pred, "self._fallback is not None": fb, "self._predict_transform": tr},
                              {**comps, **({"self._predict_transform": "CTransform"} if tr else {})})
                ex.run(pyq.strip_doc(build.body))
                g = ex.gallina()                           # every branch is walked; only the transform-free ones are emitted
                if not tr:
                    out[(pred, fb)] = g
    if out[(False, False)] != out[(False, True)]:
        raise TranslateError("RecPipelineBuilder.build: a fallback changes the pipeline although no ratings are predicted")
    b = lambda x: "true" if x else "false"               # noqa: E731
    text = ("(* RecPipelineBuilder.build() without a prediction transform: flags = predicts_ratings() was called,\n"
            "   a fallback was given.  topn_pipeline(predicts_ratings=False / \"raw\" / True) = (false, _) / (true, false) / (true, true\n"
            "   with a BiasScorer). *)\n"
            "Definition rec_wiring (is_predictor has_fallback : bool) : wiring :=\n  match is_predictor, has_fallback with\n")
    for k in ((True, True), (True, False), (False, True), (False, False)):
        text += f"  | {b(k[0])}, {b(k[1])} =>\n    {out[k]}\n"
    text += "  end.\n\n"

    pp = pyq.find_def(tree, None, "predict_pipeline")
    if [a.arg for a in pp.args.args] != ["scorer"] or [a.arg for a in pp.args.kwonlyargs] != ["fallback", "n", "name"]:
        raise TranslateError("predict_pipeline parameters changed")
    pcomps = {"UserTrainingHistoryLookup()": "CLookup", "scorer": "CScorer", "FallbackScorer()": "CMerger"}
    res = {}
    for val in ("True", "False", "component"):
        ex = WireExec({"fallback is True": val == "True", "fallback is False": val == "False"},
                      {**pcomps, **({"fallback": "CFallbackModel"} if val == "component" else {})},
                      assigns={"fallback = BiasScorer()": {"conds": {"fallback is True": False, "fallback is False": False},
                                                           "comps": {"fallback": "CFallbackModel"}}})
        ex.run(pyq.strip_doc(pp.body))
        res[val] = ex.gallina()
    if res["True"] != res["component"]:
        raise TranslateError("predict_pipeline: fallback=True and fallback=<component> are wired differently")
    text += ("(* predict_pipeline(scorer, fallback=...): fallback=True (a BiasScorer) or a component / fallback=False *)\n"
             "Definition predict_wiring (has_fallback : bool) : wiring :=\n  match has_fallback with\n"
             f"  | true =>\n    {res['True']}\n  | false =>\n    {res['False']}\n  end.\n")
    return W_HEADER + text


def itemlist_index_contract(tree) -> None:
    """TopNRanker returns `items[order]`: the model reads that as "the rows at those positions, in that order".  ItemList.__getitem__
    may convert its selector (scalar -> one-element array, sequence / tensor -> array) but any other re-binding of it (sorting,
    de-duplicating, masking by a flag of the list ...) changes what `items[order]` means and fails closed.  The parameter's name is free."""
    f = pyq.find_def(tree, "ItemList", "__getitem__")
    params = [a.arg for a in f.args.args]
    if len(params) != 2:
        raise TranslateError(f"ItemList.__getitem__ parameters {params}")
    p = params[1]
    allowed = {f"np.array([{p}])", f"np.asarray({p})", f"np.asanyarray({p})", f"{p}.numpy()", f"{p}.cpu().numpy()", f"np.require({p}, np.int32)",
               f"np.require({p}, np.int64)"}
    for n in ast.walk(f):
        tgts = []
        if isinstance(n, ast.Assign):
            tgts, val = n.targets, n.value
        elif isinstance(n, (ast.AnnAssign, ast.AugAssign)):
            tgts, val = [n.target], n.value
        elif isinstance(n, ast.NamedExpr):
            tgts, val = [n.target], n.value
        for t in tgts:
            if any(isinstance(x, ast.Name) and x.id == p for x in ast.walk(t)):
                if isinstance(n, ast.AugAssign) or val is None or ast.unparse(val) not in allowed:
                    raise TranslateError(f"ItemList.__getitem__ re-binds its position selector: {ast.unparse(n)[:120]} "
                                         f"(the ranker's `items[order]` is modelled as the rows at `order`, in that order)")


def size_constants(src) -> list[int]:
    """Integer constants a list / array length may be compared with inside the ranking path (stats.argtopn, TopNRanker.__call__,
    the candidate selector): literals >= 64 in those function bodies and module-level integer constants they refer to.  Never
    fails (an unreadable file gives no constants): it only steers the generator's catalogue sizes across such thresholds; the
    translators above still fail closed on the construct itself."""
    out = set()
    for rel, cls, fn in (("stats.py", None, "argtopn"), ("basic/topn.py", "TopNRanker", "__call__"),
                         ("basic/candidates.py", "UnratedTrainingItemsCandidateSelector", "__call__")):
        try:
            tree = pyq.parse(src / "lenskit" / rel)
            consts = {}
            for st in tree.body:
                tgt = val = None
                if isinstance(st, ast.Assign) and len(st.targets) == 1 and isinstance(st.targets[0], ast.Name):
                    tgt, val = st.targets[0].id, st.value
                elif isinstance(st, ast.AnnAssign) and isinstance(st.target, ast.Name) and st.value is not None:
                    tgt, val = st.target.id, st.value
                if tgt and isinstance(val, ast.Constant) and isinstance(val.value, int) and not isinstance(val.value, bool):
                    consts[tgt] = val.value
            f = pyq.find_def(tree, cls, fn)
            for n in ast.walk(f):
                if isinstance(n, ast.Constant) and isinstance(n.value, int) and not isinstance(n.value, bool):
                    out.add(n.value)
                elif isinstance(n, ast.Name) and n.id in consts:
                    out.add(consts[n.id])
        except Exception:  # noqa: BLE001
            continue
    return sorted(x for x in out if x >= 64)


def translate(src) -> dict:
    topn = pyq.parse(src / "lenskit" / "basic" / "topn.py")
    stats = pyq.parse(src / "lenskit" / "stats.py")
    text = (HEADER.format(who="c03", srcs="src/lenskit/basic/topn.py (TopNRanker.__call__) and src/lenskit/stats.py (argtopn)")
            + topn_len(topn) + "\n" + argtopn_plan(stats))
    itemlist_index_contract(pyq.parse(src / "lenskit" / "data" / "items.py"))
    common_py = pyq.parse(src / "lenskit" / "pipeline" / "common.py")
    return {"Gen/C03_len.v": text, "Gen/C03_wiring.v": wiring(common_py)}
