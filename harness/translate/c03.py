"""Regenerates coq/Gen/C03_len.v from basic/topn.py and stats.py (DESIGN 2.3 A).

Generic part (also used by translate/c19.py): `IntFlow` follows the integer variable that ends up as
the list length (`n`) through a component's `__call__`, statement by statement, into Gallina written
against coq/Lib/PyInt.v.  Python `int | None` values, `x or y`, `is None`, comparisons that raise on
None, `min`, `len(<list>)` (an opaque parameter), early returns of an empty list and the final
`argtopn(.., n)` / `rng.choice(.., n, replace=False)` + `ItemList(.., ordered=True)` are understood;
statements that cannot touch the tracked variables are skipped; everything else fails closed.
"""

from __future__ import annotations

import ast

from . import pyq
from .pyq import TranslateError, dotted, fail

HEADER = """(* GENERATED on every run by harness/translate/{who}.py from
   {srcs} -- do not edit. *)
From Coq Require Import ZArith Bool List.
From LK Require Import Lib.PyInt.
Import ListNotations.
Open Scope Z_scope.

"""


def stores(node) -> set[str]:
    out = set()
    for n in ast.walk(node):
        if isinstance(n, ast.Name) and isinstance(n.ctx, (ast.Store, ast.Del)):
            out.add(n.id)
        if isinstance(n, (ast.Global, ast.Nonlocal)):
            out.update(n.names)
        if isinstance(n, ast.MatchAs) and n.name:
            out.add(n.name)
        if isinstance(n, ast.MatchStar) and n.name:
            out.add(n.name)
    return out


def has_node(node, kinds) -> bool:
    return any(isinstance(n, kinds) for n in ast.walk(node))


class IntFlow:
    """tracked: python names followed as `int | None` values; attrs: dotted attribute -> Gallina parameter."""

    def __init__(self, tracked: set[str], attrs: dict[str, str], take_calls=("argtopn", "rng.choice")):
        self.tracked = set(tracked)
        self.attrs = dict(attrs)
        self.lens: list[str] = []          # names x for which len(x) became the parameter len_x
        self.take_calls = take_calls
        self.facts: dict[str, str] = {}    # side facts extracted on the way (which list is indexed, ...)

    # ---- expressions: Gallina of type `res pyv` -----------------------------------------------
    def ex(self, n, env) -> str:
        if isinstance(n, ast.Name):
            if n.id in env:
                return f"(py_val {env[n.id]})"
            fail(n, f"name {n.id} is not a tracked integer")
        if isinstance(n, ast.Constant):
            if n.value is None:
                return "(py_val None)"
            if isinstance(n.value, bool) or not isinstance(n.value, int):
                fail(n, "constant is not an int or None")
            return f"(py_int ({n.value}))"
        if isinstance(n, ast.UnaryOp) and isinstance(n.op, ast.USub):
            if isinstance(n.operand, ast.Constant) and isinstance(n.operand.value, int) and not isinstance(n.operand.value, bool):
                return f"(py_int ({-n.operand.value}))"
            return f"(py_neg {self.ex(n.operand, env)})"
        if isinstance(n, ast.Attribute):
            d = dotted(n)
            if d in self.attrs:
                return f"(py_val {self.attrs[d]})"
            fail(n, f"attribute {d} outside the whitelist")
        if isinstance(n, ast.BoolOp):
            f = "py_or" if isinstance(n.op, ast.Or) else "py_and"
            parts = [self.ex(v, env) for v in n.values]
            code = parts[-1]
            for p in reversed(parts[:-1]):
                code = f"({f} {p} {code})"
            return code
        if isinstance(n, ast.IfExp):
            return f"(py_ifexp {self.cond(n.test, env)} {self.ex(n.body, env)} {self.ex(n.orelse, env)})"
        if isinstance(n, ast.BinOp) and isinstance(n.op, (ast.Add, ast.Sub)):
            f = "py_add" if isinstance(n.op, ast.Add) else "py_sub"
            return f"({f} {self.ex(n.left, env)} {self.ex(n.right, env)})"
        if isinstance(n, ast.Call) and not n.keywords:
            d = dotted(n.func)
            if d == "len" and len(n.args) == 1 and isinstance(n.args[0], ast.Name):
                x = n.args[0].id
                if x in env:
                    fail(n, "len() of a tracked integer")
                if x not in self.lens:
                    self.lens.append(x)
                return f"(py_int len_{x})"
            if d in ("min", "max") and len(n.args) == 2:
                return f"(py_{d} {self.ex(n.args[0], env)} {self.ex(n.args[1], env)})"
        fail(n, "expression outside the whitelist")

    # ---- conditions: Gallina of type `res bool` -----------------------------------------------
    def cond(self, n, env) -> str:
        if isinstance(n, ast.BoolOp):
            f = "c_or" if isinstance(n.op, ast.Or) else "c_and"
            parts = [self.cond(v, env) for v in n.values]
            code = parts[-1]
            for p in reversed(parts[:-1]):
                code = f"({f} {p} {code})"
            return code
        if isinstance(n, ast.UnaryOp) and isinstance(n.op, ast.Not):
            return f"(py_not {self.cond(n.operand, env)})"
        if isinstance(n, ast.Compare):
            if len(n.ops) != 1:
                fail(n, "chained comparison")
            op, rhs = n.ops[0], n.comparators[0]
            if isinstance(op, (ast.Is, ast.IsNot)):
                if not (isinstance(rhs, ast.Constant) and rhs.value is None):
                    fail(n, "`is` against something other than None")
                return f"({'py_is_none' if isinstance(op, ast.Is) else 'py_is_not_none'} {self.ex(n.left, env)})"
            tbl = {ast.Lt: "py_lt", ast.LtE: "py_le", ast.Gt: "py_gt", ast.GtE: "py_ge", ast.Eq: "py_eq", ast.NotEq: "py_ne"}
            if type(op) not in tbl:
                fail(n, "unsupported comparison")
            return f"({tbl[type(op)]} {self.ex(n.left, env)} {self.ex(rhs, env)})"
        return f"(py_truth {self.ex(n, env)})"

    # ---- statements ---------------------------------------------------------------------------
    def touches(self, node) -> bool:
        return bool(stores(node) & self.tracked)

    def skippable(self, s) -> bool:
        """A statement that can neither rebind a tracked variable nor leave the function normally."""
        if has_node(s, (ast.Return, ast.NamedExpr, ast.Yield, ast.YieldFrom, ast.Await, ast.Break, ast.Continue,
                        ast.FunctionDef, ast.Lambda, ast.ClassDef, ast.Try, ast.With, ast.While, ast.For)):
            return False
        if self.touches(s):
            return False
        if isinstance(s, (ast.Assign, ast.AnnAssign, ast.AugAssign, ast.Expr, ast.Match, ast.Pass)):
            return True
        if isinstance(s, ast.If):
            return all(self.skippable(b) or isinstance(b, ast.Raise) for b in s.body + s.orelse)
        return False

    def block(self, stmts, env, taken) -> str:
        """env: tracked python name -> Gallina variable currently holding it;
        taken: {python name: Gallina code of the length it was taken with} for index arrays / indexed lists."""
        if not stmts:
            raise TranslateError("control reaches the end of the function without a return")
        s, rest = stmts[0], stmts[1:]
        if isinstance(s, ast.Return):
            return self.ret(s, env, taken)
        if isinstance(s, ast.Assign) and len(s.targets) == 1 and isinstance(s.targets[0], ast.Name):
            name = s.targets[0].id
            tk = self.take(s.value, env, taken)
            if tk is not None:
                if name in self.tracked:
                    fail(s, "index array assigned to a tracked integer")
                t2 = dict(taken)
                t2[name] = tk
                return self.block(rest, env, t2)
            if name in self.tracked:
                code = self.ex(s.value, env)
                env2 = dict(env)
                env2[name] = name
                return f"bind {code} (fun {name} =>\n  {self.block(rest, env2, taken)})"
        if isinstance(s, ast.If) and (self.touches(s) or has_node(s, ast.Return)):
            c = self.cond(s.test, env)
            a = self.block(s.body + rest, env, taken)
            b = self.block(s.orelse + rest, env, taken)
            return f"bind {c} (fun c_ : bool => if c_\n  then ({a})\n  else ({b}))"
        if self.skippable(s):
            t2 = {k: v for k, v in taken.items() if k not in stores(s)}
            return self.block(rest, env, t2)
        fail(s, "statement outside the whitelist")

    def take(self, v, env, taken):
        """`argtopn(<x>, n)`, `rng.choice(len(<l>), n, replace=False)` or `<list>[<taken>]` -> code of n."""
        if isinstance(v, ast.Call):
            d = dotted(v.func)
            if d == "argtopn" and "argtopn" in self.take_calls and len(v.args) == 2 and not v.keywords:
                if not (isinstance(v.args[1], ast.Name) and v.args[1].id in env):
                    fail(v, "argtopn length is not a tracked variable")
                if not isinstance(v.args[0], ast.Name):
                    fail(v, "argtopn applied to something other than a name")
                self.facts["keys"] = v.args[0].id
                return env[v.args[1].id]
            if d == "rng.choice" and "rng.choice" in self.take_calls:
                kw = {k.arg: k.value for k in v.keywords}
                if not (len(v.args) == 2 and set(kw) == {"replace"} and isinstance(kw["replace"], ast.Constant) and kw["replace"].value is False):
                    fail(v, "rng.choice is not a draw without replacement of n positions")
                a0 = v.args[0]
                if not (isinstance(a0, ast.Call) and dotted(a0.func) == "len" and len(a0.args) == 1 and isinstance(a0.args[0], ast.Name)):
                    fail(v, "rng.choice population is not len(<list>)")
                self.facts["population"] = a0.args[0].id
                if not (isinstance(v.args[1], ast.Name) and v.args[1].id in env):
                    fail(v, "rng.choice size is not a tracked variable")
                return env[v.args[1].id]
        if isinstance(v, ast.Subscript) and isinstance(v.value, ast.Name) and isinstance(v.slice, ast.Name) and v.slice.id in taken:
            self.facts["indexed"] = v.value.id
            return taken[v.slice.id]
        return None

    def ret(self, s, env, taken) -> str:
        v = s.value
        if v is None:
            fail(s, "bare return")
        src = ast.unparse(v)
        if src == "ItemList(item_ids=[], scores=[], ordered=True)":
            return "ret (EmptyList true)"
        if isinstance(v, ast.Subscript) and isinstance(v.value, ast.Name) and ast.unparse(v.slice).startswith("np.zeros(0,"):
            return "ret (EmptyList false)"
        tk = self.take(v, env, taken)
        if tk is not None:                                   # `items[picked]`
            return f"ret (Take {tk} false)"
        if isinstance(v, ast.Call) and dotted(v.func) == "ItemList" and len(v.args) == 1:
            kw = {k.arg: k.value for k in v.keywords}
            inner = v.args[0]
            tk = taken.get(inner.id) if isinstance(inner, ast.Name) else self.take(inner, env, taken)
            if tk is None:
                fail(s, "returned list is not the input indexed by the drawn positions")
            if set(kw) - {"ordered"}:
                fail(s, "returned list overrides fields")
            o = kw.get("ordered")
            if o is not None and not (isinstance(o, ast.Constant) and isinstance(o.value, bool)):
                fail(s, "ordered flag is not a constant")
            return f"ret (Take {tk} {'true' if (o is not None and o.value) else 'false'})"
        fail(s, "return outside the whitelist")

    def function(self, fdef: ast.FunctionDef, gname: str, params: dict[str, str]) -> str:
        """params: python parameter -> Gallina variable (all tracked, of type pyv)."""
        env = dict(params)
        body = self.block(pyq.strip_doc(fdef.body), env, {})
        ps = " ".join(f"({g} : pyv)" for g in params.values())
        ps += "".join(f" ({a} : pyv)" for a in self.attrs.values())
        ps += "".join(f" (len_{x} : Z)" for x in self.lens)
        return f"Definition {gname} {ps} : res outcome :=\n  {body}.\n"


def call_def(tree, cls: str) -> ast.FunctionDef:
    f = pyq.find_def(tree, cls, "__call__")
    names = [a.arg for a in f.args.posonlyargs + f.args.args + f.args.kwonlyargs]
    if "n" not in names:
        raise TranslateError(f"{cls}.__call__ has no parameter n")
    return f


# ---- argtopn: which of the three plans is followed, and the NaN-masking recursion --------------

NAN_BLOCK = [
    "mask = ~invalid",
    "vxs = xs[mask]",
    "remap = np.arange(N)[mask]",
    "res = argtopn(vxs, n)",
    "return remap[res]",
]
PART_BLOCK = [
    "parts = np.argpartition(-xs, n)",
    "top_scores = xs[parts[:n]]",
    "top_sort = np.argsort(-top_scores)",
    "order = parts[top_sort]",
]
FULL_BLOCK = ["order = np.argsort(-xs)"]


def argtopn_plan(tree) -> str:
    f = pyq.find_def(tree, None, "argtopn")
    params = [a.arg for a in f.args.args]
    if params != ["xs", "n"]:
        raise TranslateError(f"argtopn parameters {params}")
    body = pyq.strip_doc(f.body)
    fl = IntFlow({"n", "N"}, {})
    env = {"n": "n", "N": "N"}

    def lines(stmts):
        return [ast.unparse(s) for s in stmts]

    if not (len(body) == 7 and isinstance(body[0], ast.If) and not body[0].orelse
            and lines(body[0].body) == ["return np.empty(0, np.int64)"]):
        raise TranslateError("argtopn: unexpected statement structure (empty-result guard)")
    c_empty = fl.cond(body[0].test, {"n": "n"})
    if lines(body[1:4]) != ["xs = np.asarray(xs)", "N = len(xs)", "invalid = np.isnan(xs)"]:
        raise TranslateError("argtopn: array / length / NaN-mask preamble changed: " + "; ".join(lines(body[1:4])))
    nanif = body[4]
    if not (isinstance(nanif, ast.If) and ast.unparse(nanif.test) == "np.any(invalid)" and not nanif.orelse
            and lines(nanif.body) == NAN_BLOCK):
        raise TranslateError("argtopn: NaN branch is no longer `argtopn(xs[~isnan], n)` mapped back through the mask")
    sel = body[5]
    if not (isinstance(sel, ast.If) and lines(sel.body) == PART_BLOCK and lines(sel.orelse) == FULL_BLOCK):
        raise TranslateError("argtopn: partition / full-sort branches changed")
    c_part = fl.cond(sel.test, env)
    if lines(body[6:]) != ["return order"]:
        raise TranslateError("argtopn: does not end in `return order`")
    return (
        "(* argtopn(xs, n): NaN entries are masked out and argtopn re-applied with the same n to the rest\n"
        "   (positions mapped back through the mask); on a NaN-free array of length N: *)\n"
        "Definition argtopn_plan (n_ N_ : Z) : res plan :=\n"
        "  let n : pyv := Some n_ in let N : pyv := Some N_ in\n"
        f"  bind {c_empty} (fun c_ : bool => if c_ then ret PEmpty else\n"
        f"  bind {c_part} (fun c_ : bool => if c_ then ret PPart else ret PFull)).\n"
    )


def topn_len(tree) -> str:
    f = call_def(tree, "TopNRanker")
    fl = IntFlow({"n"}, {"self.config.n": "config_n"}, take_calls=("argtopn",))
    text = fl.function(f, "topn_len", {"n": "n"})
    if fl.lens:
        raise TranslateError("TopNRanker: the list length now depends on len(...) of " + ", ".join(fl.lens))
    if fl.facts.get("indexed") != "items" or fl.facts.get("keys") != "scores":
        raise TranslateError(f"TopNRanker: ranks {fl.facts.get('keys')} / indexes {fl.facts.get('indexed')}, expected scores / items")
    # the array handed to argtopn must be the score field of the input list
    srcs = [ast.unparse(s) for s in ast.walk(f) if isinstance(s, ast.Assign) and any(isinstance(t, ast.Name) and t.id == "scores" for t in s.targets)]
    if srcs != ["scores = items.scores('numpy')"]:
        raise TranslateError(f"TopNRanker: scores are obtained as {srcs}")
    return text


def translate(src) -> dict:
    topn = pyq.parse(src / "lenskit" / "basic" / "topn.py")
    stats = pyq.parse(src / "lenskit" / "stats.py")
    text = (HEADER.format(who="c03", srcs="src/lenskit/basic/topn.py (TopNRanker.__call__) and src/lenskit/stats.py (argtopn)")
            + topn_len(topn) + "\n" + argtopn_plan(stats))
    return {"Gen/C03_len.v": text}
