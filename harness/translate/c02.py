"""Regenerates coq/Gen/C02_shape.v from pipeline/runner.py and pipeline/_impl.py (DESIGN 2.3 A).

What is extracted (fail-closed: any construct outside the expected shape raises TranslateError):
  * Pipeline.run_all builds a fresh `PipelineRunner(self, kwargs)` in a local variable; neither run nor
    run_all (nor the read-only accessors the runner calls) assign to an attribute of the pipeline;
  * PipelineRunner.__init__ starts every node as "pending" with an empty state;
  * which attributes/methods of the pipeline the runner touches;
  * PipelineRunner.run: the order of the status tests and what each does, the status words written,
    and that the handler re-raises the very exception it caught;
  * PipelineBuilder.connect / default_connection (builder.py): what a wiring argument is turned into -- the
    tests applied to it in order and the node name stored for each (a Node is wired by its name, anything
    else becomes a new literal node).
"""

from __future__ import annotations

import ast

from .pyq import TranslateError, fail

HEADER = """(* GENERATED on every run by harness/translate/c02.py from
   src/lenskit/pipeline/runner.py, src/lenskit/pipeline/_impl.py and src/lenskit/pipeline/builder.py -- do not edit. *)
From Coq Require Import List String Bool.
Import ListNotations.
Open Scope string_scope.

"""


def _cls(tree, name):
    for n in tree.body:
        if isinstance(n, ast.ClassDef) and n.name == name:
            return n
    raise TranslateError(f"class {name} not found")


def _fn(cls, name):
    fns = [n for n in cls.body if isinstance(n, ast.FunctionDef) and n.name == name]
    if not fns:
        raise TranslateError(f"method {cls.name}.{name} not found")
    return fns[-1]      # the implementation follows its @overload stubs


def _rooted_at(expr, root):
    """expr is root, root.x, root.x[y], root.x.y ..."""
    while isinstance(expr, (ast.Attribute, ast.Subscript)):
        expr = expr.value
    return isinstance(expr, ast.Name) and expr.id == root


def _targets(fn):
    for n in ast.walk(fn):
        if isinstance(n, ast.Assign):
            yield from n.targets
        elif isinstance(n, (ast.AugAssign, ast.AnnAssign)):
            yield n.target
        elif isinstance(n, ast.Delete):
            yield from n.targets


def _flatten(t):
    if isinstance(t, (ast.Tuple, ast.List)):
        for e in t.elts:
            yield from _flatten(e)
    else:
        yield t


def _assigns_to_self(fn):
    for t in _targets(fn):
        for e in _flatten(t):
            if not isinstance(e, ast.Name) and _rooted_at(e, "self"):
                return True
    return False


def _is_self_attr(e, attr):
    return isinstance(e, ast.Attribute) and isinstance(e.value, ast.Name) and e.value.id == "self" and e.attr == attr


def cstr(s):
    assert '"' not in s
    return f'"{s}"'


def translate(src):
    impl = ast.parse((src / "lenskit/pipeline/_impl.py").read_text())
    runner = ast.parse((src / "lenskit/pipeline/runner.py").read_text())
    P = _cls(impl, "Pipeline")
    R = _cls(runner, "PipelineRunner")
    D = _cls(runner, "DeferredRun")

    # --- run_all: fresh runner in a local; the pipeline object is not assigned -----------------
    run_all = _fn(P, "run_all")
    fresh = False
    for n in ast.walk(run_all):
        if isinstance(n, ast.Assign) and len(n.targets) == 1 and isinstance(n.targets[0], ast.Name):
            c = n.value
            if (isinstance(c, ast.Call) and isinstance(c.func, ast.Name) and c.func.id == "PipelineRunner"
                    and len(c.args) == 2 and isinstance(c.args[0], ast.Name) and c.args[0].id == "self"
                    and isinstance(c.args[1], ast.Name) and c.args[1].id == run_all.args.kwarg.arg and not c.keywords):
                fresh = True
                runner_var = n.targets[0].id
    if not fresh:
        fail(run_all, "run_all does not create `PipelineRunner(self, kwargs)` in a local variable")
    # the runner used in the loop is that local, and it is created outside any loop/branch
    if not any(isinstance(s, ast.Assign) and isinstance(s.targets[0], ast.Name) and s.targets[0].id == runner_var for s in run_all.body):
        fail(run_all, "the runner is not created at the top level of run_all")
    loop_ok = False
    for n in run_all.body:
        if isinstance(n, ast.For) and isinstance(n.target, ast.Name):
            calls = [c for c in ast.walk(n) if isinstance(c, ast.Call) and isinstance(c.func, ast.Attribute) and c.func.attr == "run"
                     and isinstance(c.func.value, ast.Name) and c.func.value.id == runner_var]
            if len(calls) == 1 and len(calls[0].args) == 1 and isinstance(calls[0].args[0], ast.Name) and calls[0].args[0].id == n.target.id \
                    and not calls[0].keywords:
                loop_ok = True
    if not loop_ok:
        fail(run_all, "run_all does not run the requested nodes one after another with runner.run(node)")
    reads = ["node", "node_input_connections", "nodes", "name", "meta"]
    mutated = [f for f in ["run", "run_all"] + reads if any(isinstance(n, ast.FunctionDef) and n.name == f for n in P.body)
               and any(_assigns_to_self(fn) for fn in P.body if isinstance(fn, ast.FunctionDef) and fn.name == f)]
    # Pipeline.run delegates to run_all
    run = _fn(P, "run")
    if not any(isinstance(c, ast.Call) and isinstance(c.func, ast.Attribute) and c.func.attr == "run_all" and _rooted_at(c.func.value, "self")
               for c in ast.walk(run)):
        fail(run, "Pipeline.run does not call self.run_all")

    # --- PipelineRunner.__init__ ----------------------------------------------------------------
    init = _fn(R, "__init__")
    pipe_arg = init.args.args[1].arg
    all_pending = state_empty = False
    for s in init.body:
        if isinstance(s, ast.Assign) and len(s.targets) == 1:
            t, v = s.targets[0], s.value
            if _is_self_attr(t, "status"):
                if (isinstance(v, ast.DictComp) and isinstance(v.value, ast.Constant) and v.value.value == "pending"
                        and len(v.generators) == 1 and not v.generators[0].ifs
                        and isinstance(v.generators[0].iter, ast.Call) and isinstance(v.generators[0].iter.func, ast.Attribute)
                        and v.generators[0].iter.func.attr == "nodes" and _rooted_at(v.generators[0].iter.func.value, pipe_arg)):
                    all_pending = True
                else:
                    fail(s, "initial status is not `\"pending\"` for every node of the pipeline")
            if _is_self_attr(t, "state"):
                if isinstance(v, ast.Dict) and not v.keys:
                    state_empty = True
                else:
                    fail(s, "initial state is not an empty dict")
    if not (all_pending and state_empty):
        fail(init, "PipelineRunner.__init__ does not initialise status and state")

    # --- the runner never assigns to the pipeline; which of its members it uses ---------------------
    used = set()
    for cls in (R, D):
        for fn in cls.body:
            if not isinstance(fn, ast.FunctionDef):
                continue
            for t in _targets(fn):
                for e in _flatten(t):
                    inner = e
                    while isinstance(inner, (ast.Attribute, ast.Subscript)):
                        if _is_self_attr(inner, "pipe") and inner is not e:
                            fail(e, "the runner assigns into the pipeline")
                        inner = inner.value
                    if isinstance(e, (ast.Attribute, ast.Subscript)) and _rooted_at(e, pipe_arg) and fn.name == "__init__":
                        fail(e, "the runner assigns into the pipeline")
            for n in ast.walk(fn):
                if isinstance(n, ast.Attribute) and (_is_self_attr(n.value, "pipe") or (fn.name == "__init__" and isinstance(n.value, ast.Name) and n.value.id == pipe_arg)):
                    used.add(n.attr)
    unknown = sorted(used - set(reads))
    if unknown:
        raise TranslateError(f"the runner uses pipeline members outside the read-only list: {unknown}")

    # --- PipelineRunner.run: status dispatch -----------------------------------------------------------
    rrun = _fn(R, "run")
    dispatch = []
    chain = None
    status_var = None
    for s in rrun.body:
        if isinstance(s, ast.Assign) and isinstance(s.targets[0], ast.Name) and isinstance(s.value, ast.Subscript) and _is_self_attr(s.value.value, "status"):
            status_var = s.targets[0].id
        if isinstance(s, ast.If) and chain is None:
            chain = s
    if status_var is None or chain is None:
        fail(rrun, "PipelineRunner.run does not read self.status[...] and dispatch on it")

    def action(body):
        last = body[-1]
        rets = [n for n in ast.walk(ast.Module(body=body, type_ignores=[])) if isinstance(n, ast.Return)]
        raises = [n for n in ast.walk(ast.Module(body=body, type_ignores=[])) if isinstance(n, ast.Raise)]
        if raises and not rets:
            r = raises[0]
            if len(raises) == 1 and isinstance(r.exc, ast.Call) and isinstance(r.exc.func, ast.Name):
                return "raise " + r.exc.func.id
            fail(last, "unexpected raise in status dispatch")
        if rets and not raises:
            # every return is self.state[node.name] or None, the latter only under a test mentioning `required`
            kinds = set()
            for r in rets:
                if isinstance(r.value, ast.Subscript) and _is_self_attr(r.value.value, "state"):
                    kinds.add("state")
                elif isinstance(r.value, ast.Constant) and r.value.value is None:
                    kinds.add("none")
                else:
                    fail(r, "unexpected return in status dispatch")
            if kinds == {"state"}:
                return "return state"
            if kinds == {"state", "none"}:
                tests = [n for n in body if isinstance(n, ast.If)]
                if len(tests) == 1 and any(isinstance(x, ast.Name) and x.id == "required" for x in ast.walk(tests[0].test)):
                    return "return state if required or present else None"
            fail(last, "unexpected returns in status dispatch")
        fail(last, "status branch neither returns nor raises")

    node = chain
    while True:
        t = node.test
        if not (isinstance(t, ast.Compare) and isinstance(t.left, ast.Name) and t.left.id == status_var and len(t.ops) == 1
                and isinstance(t.ops[0], ast.Eq) and isinstance(t.comparators[0], ast.Constant)):
            fail(t, "status test is not `status == <word>`")
        dispatch.append((t.comparators[0].value, action(node.body)))
        if len(node.orelse) == 1 and isinstance(node.orelse[0], ast.If):
            node = node.orelse[0]
        elif not node.orelse:
            break
        else:
            fail(node, "status dispatch has a final else")

    # status words written after the dispatch, in order; handler re-raises the caught exception itself
    writes = []
    reraises_same = None
    for s in rrun.body:
        for n in ast.walk(s):
            if isinstance(n, ast.Assign) and isinstance(n.targets[0], ast.Subscript) and _is_self_attr(n.targets[0].value, "status"):
                if not isinstance(n.value, ast.Constant):
                    fail(n, "status written with a non-constant")
                writes.append(n.value.value)
        if isinstance(s, ast.Try) and any(isinstance(n, ast.Call) and isinstance(n.func, ast.Attribute) and n.func.attr == "_run_node" for n in ast.walk(s)):
            if len(s.handlers) != 1 or s.finalbody or s.orelse:
                fail(s, "unexpected try shape around _run_node")
            h = s.handlers[0]
            rs = [n for n in ast.walk(h) if isinstance(n, ast.Raise)]
            if len(rs) != 1 or rs[0] is not h.body[-1]:
                fail(h, "handler does not end in a single raise")
            r = rs[0]
            reraises_same = r.cause is None and (r.exc is None or (isinstance(r.exc, ast.Name) and r.exc.id == h.name))
            if any(isinstance(n, ast.Return) for n in ast.walk(h)):
                fail(h, "handler returns")
    if reraises_same is None:
        fail(rrun, "no try/except around _run_node")

    # --- PipelineBuilder.connect / default_connection: Node -> its name, anything else -> a new literal ---------
    builder = ast.parse((src / "lenskit/pipeline/builder.py").read_text())
    B = _cls(builder, "PipelineBuilder")

    def stored(body, target_ok):
        """the expression stored by the last statement of a branch, with locals assigned in the branch substituted"""
        loc = {}
        val = None
        for st in body:
            if isinstance(st, ast.Assign) and len(st.targets) == 1:
                t = st.targets[0]
                if isinstance(t, ast.Name):
                    loc[t.id] = st.value
                elif target_ok(t):
                    val = st.value
                else:
                    fail(st, "unexpected assignment in a wiring branch")
            elif isinstance(st, ast.Expr) and isinstance(st.value, ast.Call):
                pass        # a check that may only raise
            else:
                fail(st, "unexpected statement in a wiring branch")
        if val is None:
            fail(body[-1], "wiring branch stores nothing")

        class Sub(ast.NodeTransformer):
            def visit_Name(self, n):
                return loc.get(n.id, n)
        return ast.unparse(Sub().visit(val))

    connect = _fn(B, "connect")
    loops = [n for n in connect.body if isinstance(n, ast.For)]
    if len(loops) != 1 or ast.unparse(loops[0].iter) != f"{connect.args.kwarg.arg}.items()" or loops[0].orelse:
        fail(connect, "connect does not loop once over its keyword wiring")
    loop = loops[0]
    if len(loop.body) != 1 or not isinstance(loop.body[0], ast.If):
        fail(loop, "the wiring loop of connect is not a single if/else")
    kvar = loop.target.elts[0].id

    def edge_target(t):
        return isinstance(t, ast.Subscript) and isinstance(t.value, ast.Name) and isinstance(t.slice, ast.Name) and t.slice.id == kvar
    wiring = []
    node = loop.body[0]
    while True:
        wiring.append((ast.unparse(node.test), stored(node.body, edge_target)))
        if len(node.orelse) == 1 and isinstance(node.orelse[0], ast.If):
            node = node.orelse[0]
        else:
            if not node.orelse:
                fail(node, "the wiring loop of connect has no else branch")
            wiring.append(("else", stored(node.orelse, edge_target)))
            break
    dc = _fn(B, "default_connection")
    dflt = []
    for st in dc.body:
        if isinstance(st, ast.Expr) and isinstance(st.value, ast.Constant):
            continue
        if isinstance(st, ast.If) and not st.orelse and len(st.body) == 1 and isinstance(st.body[0], ast.Assign):
            dflt.append(f"if {ast.unparse(st.test)}: {ast.unparse(st.body[0])}")
        elif isinstance(st, ast.Assign):
            dflt.append(ast.unparse(st))
        else:
            fail(st, "unexpected statement in default_connection")

    out = [HEADER]
    out.append("(* Pipeline.run_all: `runner = PipelineRunner(self, kwargs)` in a local, then runner.run(node) per requested node *)\n")
    out.append("Definition runner_fresh_per_run : bool := true.\n")
    out.append(f"Definition pipeline_methods_assigning_self : list string := {'[' + '; '.join(cstr(m) for m in mutated) + ']'}.\n")
    out.append("(* PipelineRunner.__init__ *)\n")
    out.append(f"Definition init_all_pending : bool := {str(all_pending).lower()}.\n")
    out.append(f"Definition init_state_empty : bool := {str(state_empty).lower()}.\n")
    out.append("(* members of the pipeline the runner reads (it assigns to none) *)\n")
    out.append(f"Definition pipeline_members_used : list string := {'[' + '; '.join(cstr(m) for m in sorted(used)) + ']'}.\n")
    out.append("(* PipelineRunner.run *)\n")
    out.append("Definition status_dispatch : list (string * string) := [" + "; ".join(f"({cstr(a)}, {cstr(b)})" for a, b in dispatch) + "].\n")
    out.append(f"Definition status_writes : list string := {'[' + '; '.join(cstr(m) for m in writes) + ']'}.\n")
    out.append(f"Definition handler_reraises_same_exception : bool := {str(bool(reraises_same)).lower()}.\n")
    out.append("(* PipelineBuilder.connect: for each keyword wiring k=n, the tests on n in order and the node name stored *)\n")
    out.append("Definition connect_wiring : list (string * string) := [" + "; ".join(f"({cstr(a)}, {cstr(b)})" for a, b in wiring) + "].\n")
    out.append(f"Definition default_connection_body : list string := {'[' + '; '.join(cstr(m) for m in dflt) + ']'}.\n")
    return {"Gen/C02_shape.v": "".join(out)}
