"""Regenerates coq/Gen/C15_save.v from data/container.py and coq/Gen/C15_state.v from data/items.py (DESIGN 2.3 A).

Fail-closed extractor: DataContainer.save and DataContainer.load are walked statement by statement;
every statement must be either on the ignore list (logging, `path = Path(path)`, the local import of
save_stats, `tables = {}`) or one of the recognised file-system effects.  Anything else raises
TranslateError, so Gen/C15_save.v is not produced and Props/C15.v stops compiling.
The file names used by save and load must be the same literals ("schema.json", f"{name}.parquet").
"""

from __future__ import annotations

import ast

from . import pyq
from .pyq import TranslateError, dotted, fail

HEADER = """(* GENERATED on every run by harness/translate/c15.py from
   src/lenskit/data/container.py -- do not edit. *)
From Coq Require Import List.
From LK Require Import Model.C15_steps.
Import ListNotations.

"""


def _is_log(st) -> bool:
    # log.info(...), log.debug(...), log.warn(...)
    if isinstance(st, ast.Expr) and isinstance(st.value, ast.Call):
        d = dotted(st.value.func)
        return d in ("log.info", "log.debug", "log.warn", "log.warning")
    return False


def _is_ignorable_assign(st) -> bool:
    if isinstance(st, ast.Assign) and len(st.targets) == 1 and isinstance(st.targets[0], ast.Name):
        t = st.targets[0].id
        v = st.value
        if t == "path" and isinstance(v, ast.Call) and dotted(v.func) == "Path" and len(v.args) == 1 \
                and isinstance(v.args[0], ast.Name) and v.args[0].id == "path" and not v.keywords:
            return True
        if t == "log" and isinstance(v, ast.Call) and dotted(v.func) in ("_log.bind", "log.bind"):
            return True
        if t == "tables" and isinstance(v, ast.Dict) and not v.keys:
            return True
    return False


def _path_div(node):
    """`path / <x>` -> x (ast) ; None otherwise"""
    if isinstance(node, ast.BinOp) and isinstance(node.op, ast.Div) and isinstance(node.left, ast.Name) and node.left.id == "path":
        return node.right
    return None


def _const_name(node):
    return node.value if isinstance(node, ast.Constant) and isinstance(node.value, str) else None


def _table_pattern(node, var):
    """f"{var}.parquet" -> ".parquet" suffix; None otherwise"""
    if isinstance(node, ast.JoinedStr) and len(node.values) == 2:
        a, b = node.values
        if isinstance(a, ast.FormattedValue) and isinstance(a.value, ast.Name) and a.value.id == var \
                and a.conversion == -1 and a.format_spec is None and isinstance(b, ast.Constant):
            return b.value
    return None


def save_steps(f: ast.FunctionDef):
    steps, names = [], {}
    for st in pyq.strip_doc(f.body):
        if _is_log(st) or _is_ignorable_assign(st):
            continue
        if isinstance(st, ast.ImportFrom) and st.module == "summary" and [a.name for a in st.names] == ["save_stats"]:
            continue
        # if path.exists(): [log]; rmtree(path)
        if isinstance(st, ast.If):
            t = st.test
            if not (isinstance(t, ast.Call) and dotted(t.func) == "path.exists" and not t.args and not st.orelse):
                fail(st, "save: unrecognised conditional")
            body = [s for s in st.body if not _is_log(s)]
            if not (len(body) == 1 and isinstance(body[0], ast.Expr) and isinstance(body[0].value, ast.Call)
                    and dotted(body[0].value.func) == "rmtree" and len(body[0].value.args) == 1
                    and isinstance(body[0].value.args[0], ast.Name) and body[0].value.args[0].id == "path"
                    and not body[0].value.keywords):
                fail(st, "save: conditional body is not exactly rmtree(path)")
            steps.append("SRmtreeIfExists")
            continue
        # path.mkdir(exist_ok=True, parents=True)
        if isinstance(st, ast.Expr) and isinstance(st.value, ast.Call) and dotted(st.value.func) == "path.mkdir":
            kw = {k.arg: getattr(k.value, "value", None) for k in st.value.keywords}
            if st.value.args or kw != {"exist_ok": True, "parents": True}:
                fail(st, "save: mkdir with unexpected arguments")
            steps.append("SMkdir")
            continue
        # with open(path / "schema.json", "wt") as jsf: print(self.schema.model_dump_json(), file=jsf)
        if isinstance(st, ast.With):
            if len(st.items) != 1:
                fail(st, "save: with-statement with several items")
            it = st.items[0]
            c = it.context_expr
            if not (isinstance(c, ast.Call) and dotted(c.func) == "open" and len(c.args) == 2
                    and _const_name(c.args[1]) in ("wt", "w") and isinstance(it.optional_vars, ast.Name)):
                fail(st, "save: with-statement is not open(path / name, 'wt') as f")
            fn = _const_name(_path_div(c.args[0]))
            if fn is None:
                fail(st, "save: schema file is not path / <literal>")
            body = st.body
            if not (len(body) == 1 and isinstance(body[0], ast.Expr) and isinstance(body[0].value, ast.Call)
                    and dotted(body[0].value.func) == "print" and len(body[0].value.args) == 1
                    and isinstance(body[0].value.args[0], ast.Call)
                    and dotted(body[0].value.args[0].func) == "self.schema.model_dump_json"
                    and [k.arg for k in body[0].value.keywords] == ["file"]
                    and isinstance(body[0].value.keywords[0].value, ast.Name)
                    and body[0].value.keywords[0].value.id == it.optional_vars.id):
                fail(st, "save: schema body is not print(self.schema.model_dump_json(), file=f)")
            names["schema"] = fn
            steps.append("SWriteSchema")
            continue
        # for name, table in self.tables.items(): [log]; write_table(table, path / f"{name}.parquet", ...)
        if isinstance(st, ast.For):
            tg, it = st.target, st.iter
            if not (isinstance(tg, ast.Tuple) and len(tg.elts) == 2 and all(isinstance(e, ast.Name) for e in tg.elts)
                    and isinstance(it, ast.Call) and dotted(it.func) == "self.tables.items" and not it.args and not st.orelse):
                fail(st, "save: loop is not over self.tables.items()")
            nv, tv = tg.elts[0].id, tg.elts[1].id
            body = [s for s in st.body if not _is_log(s)]
            if not (len(body) == 1 and isinstance(body[0], ast.Expr) and isinstance(body[0].value, ast.Call)
                    and dotted(body[0].value.func) == "write_table" and len(body[0].value.args) == 2
                    and isinstance(body[0].value.args[0], ast.Name) and body[0].value.args[0].id == tv):
                fail(st, "save: loop body is not write_table(table, path / f'{name}.parquet')")
            suf = _table_pattern(_path_div(body[0].value.args[1]), nv)
            if suf is None:
                fail(st, "save: table file is not path / f'{name}<suffix>'")
            names["table"] = suf
            steps.append("SWriteTables")
            continue
        # save_stats(self, path / "summary.md")
        if isinstance(st, ast.Expr) and isinstance(st.value, ast.Call) and dotted(st.value.func) == "save_stats":
            c = st.value
            if not (len(c.args) == 2 and isinstance(c.args[0], ast.Name) and c.args[0].id == "self" and not c.keywords):
                fail(st, "save: save_stats with unexpected arguments")
            fn = _const_name(_path_div(c.args[1]))
            if fn is None:
                fail(st, "save: summary file is not path / <literal>")
            names["summary"] = fn
            steps.append("SWriteSummary")
            continue
        fail(st, "save: statement outside the recognised effect grammar")
    return steps, names


def load_steps(f: ast.FunctionDef):
    steps, names = [], {}
    schema_file_var = None
    for st in pyq.strip_doc(f.body):
        if _is_log(st) or _is_ignorable_assign(st):
            continue
        if isinstance(st, ast.Assign) and len(st.targets) == 1 and isinstance(st.targets[0], ast.Name):
            t, v = st.targets[0].id, st.value
            if t == "schema_file":
                fn = _const_name(_path_div(v))
                if fn is None:
                    fail(st, "load: schema_file is not path / <literal>")
                names["schema"] = fn
                schema_file_var = t
                continue
            if t == "schema":
                ok = (isinstance(v, ast.Call) and dotted(v.func) == "DataSchema.model_validate_json" and len(v.args) == 1
                      and isinstance(v.args[0], ast.Call) and dotted(v.args[0].func) == f"{schema_file_var}.read_text")
                if not ok:
                    fail(st, "load: schema is not DataSchema.model_validate_json(schema_file.read_text(...))")
                steps.append("LReadSchema")
                continue
        if isinstance(st, ast.For):
            tg, it = st.target, st.iter
            if not (isinstance(tg, ast.Name) and dotted(it) in ("schema.entities", "schema.relationships") and not st.orelse):
                fail(st, "load: loop is not over schema.entities / schema.relationships")
            if "LReadSchema" not in steps:
                fail(st, "load: tables read before the schema")
            body = [s for s in st.body if not _is_log(s)]
            b = body[0] if len(body) == 1 else None
            ok = (isinstance(b, ast.Assign) and len(b.targets) == 1 and isinstance(b.targets[0], ast.Subscript)
                  and dotted(b.targets[0].value) == "tables" and isinstance(b.targets[0].slice, ast.Name)
                  and b.targets[0].slice.id == tg.id and isinstance(b.value, ast.Call)
                  and dotted(b.value.func) == "read_table" and len(b.value.args) == 1 and not b.value.keywords)
            if not ok:
                fail(st, "load: loop body is not tables[name] = read_table(path / f'{name}<suffix>')")
            suf = _table_pattern(_path_div(b.value.args[0]), tg.id)
            if suf is None or names.setdefault("table", suf) != suf:
                fail(st, "load: table file pattern differs between loops")
            steps.append("LReadTables " + ("KEntities" if dotted(it) == "schema.entities" else "KRelationships"))
            continue
        if isinstance(st, ast.Return):
            v = st.value
            if not (isinstance(v, ast.Call) and dotted(v.func) == "cls" and [getattr(a, "id", None) for a in v.args] == ["schema", "tables"]
                    and not v.keywords):
                fail(st, "load: return is not cls(schema, tables)")
            steps.append("LReturn")
            continue
        fail(st, "load: statement outside the recognised grammar")
    return steps, names


# ---------------------------------------------------------------------------------------------
# data/items.py: what an ItemList object consists of, and the shape of the three methods the codec model
# (Model/C15_codec.v, Model/C15_derive.v) was written after.  Nothing here raises: the shapes are written
# out as they are found and Proofs/C15_state.v compares them with the ones the model follows, so a change
# stops Props/C15.v from compiling while the executable model (and with it the correspondence) still runs.
# ---------------------------------------------------------------------------------------------

STATE_HEADER = """(* GENERATED on every run by harness/translate/c15.py from
   src/lenskit/data/items.py -- do not edit.
   itemlist_attrs   : every attribute an ItemList object can carry (class-level declarations and every
                      attribute assigned or deleted anywhere in the class), sorted
   itemlist_dict_ops: every statement of the class that touches __dict__ / setattr / vars / __slots__
   *_shape          : the method as a list of (guards on the path, statement) *)
From Coq Require Import List String.
Import ListNotations.
Open Scope string_scope.

"""


def _cq(s: str) -> str:
    s = s.encode("ascii", "backslashreplace").decode()
    return '"' + s.replace('"', '""') + '"'


def _is_docstring(st) -> bool:
    return isinstance(st, ast.Expr) and isinstance(st.value, ast.Constant) and isinstance(st.value.value, str)


def guarded_statements(stmts, guards=()):
    out = []
    for st in stmts:
        if _is_docstring(st):
            continue
        if isinstance(st, ast.If):
            t = ast.unparse(st.test)
            out += guarded_statements(st.body, guards + (t,))
            if st.orelse:
                out += guarded_statements(st.orelse, guards + (f"not ({t})",))
        elif isinstance(st, ast.For) and not st.orelse:
            out += guarded_statements(st.body, guards + (f"for {ast.unparse(st.target)} in {ast.unparse(st.iter)}",))
        elif isinstance(st, (ast.Assign, ast.AnnAssign, ast.AugAssign, ast.Delete, ast.Return, ast.Expr, ast.Raise, ast.Assert, ast.Pass)):
            out.append((" && ".join(guards), ast.unparse(st)))
        else:
            out.append((" && ".join(guards), f"<unsupported {type(st).__name__}> " + ast.unparse(st)))
    return out


def itemlist_state(src) -> str:
    tree = pyq.parse(src / "lenskit" / "data" / "items.py")
    cs = [n for n in tree.body if isinstance(n, ast.ClassDef) and n.name == "ItemList"]
    text = STATE_HEADER
    if len(cs) != 1:
        return text + "(* class ItemList not found exactly once *)\n"
    cls = cs[0]
    attrs = set()
    for st in cls.body:
        if isinstance(st, ast.AnnAssign) and isinstance(st.target, ast.Name):
            attrs.add(st.target.id)
        elif isinstance(st, ast.Assign):
            attrs.update(t.id for t in st.targets if isinstance(t, ast.Name))
    dict_ops = []
    for node in ast.walk(cls):
        if isinstance(node, ast.Attribute) and isinstance(node.ctx, (ast.Store, ast.Del)):
            attrs.add(node.attr)
        if isinstance(node, ast.stmt) and not isinstance(node, (ast.FunctionDef, ast.ClassDef, ast.If, ast.For, ast.While, ast.With, ast.Try)):
            t = ast.unparse(node)
            if not _is_docstring(node) and any(w in t for w in ("__dict__", "setattr(", "vars(", "__slots__", "__setattr__")):
                dict_ops.append(t)
    text += "Definition itemlist_attrs : list string := [" + "; ".join(_cq(a) for a in sorted(attrs)) + "].\n\n"
    text += "Definition itemlist_dict_ops : list string := [" + "; ".join(_cq(a) for a in dict_ops) + "].\n\n"
    for meth, name in (("__getstate__", "getstate_shape"), ("__setstate__", "setstate_shape"), ("arrow_types", "arrow_types_shape")):
        fs = [n for n in cls.body if isinstance(n, ast.FunctionDef) and n.name == meth]
        if len(fs) != 1:
            text += f"(* method {meth} not found exactly once *)\n"
            continue
        rows = guarded_statements(fs[0].body)
        text += f"Definition {name} : list (string * string) := [\n  " + ";\n  ".join(f"({_cq(g)}, {_cq(t)})" for g, t in rows) + "].\n\n"
    return text


def translate(src) -> dict:
    state_text = itemlist_state(src)
    tree = pyq.parse(src / "lenskit" / "data" / "container.py")
    # the names save uses must be the module-level imports (what the harness wraps)
    imports = {a.asname or a.name: (n.module, a.name) for n in tree.body if isinstance(n, ast.ImportFrom) for a in n.names}
    for want, mod in (("rmtree", "shutil"), ("write_table", "pyarrow.parquet"), ("read_table", "pyarrow.parquet"), ("Path", "pathlib")):
        if imports.get(want) != (mod, want):
            raise TranslateError(f"container.py: {want} is not imported from {mod}")
    s_steps, s_names = save_steps(pyq.find_def(tree, "DataContainer", "save"))
    l_steps, l_names = load_steps(pyq.find_def(tree, "DataContainer", "load"))
    for k in ("schema", "table"):
        if k in s_names and k in l_names and s_names[k] != l_names[k]:
            raise TranslateError(f"save writes {k} file {s_names[k]!r} but load reads {l_names[k]!r}")
    if s_names.get("schema") is not None and s_names.get("schema") == s_names.get("summary"):
        raise TranslateError("summary and schema share a file name")
    # Dataset.save / Dataset.load must be plain delegations to the container
    dtree = pyq.parse(src / "lenskit" / "data" / "dataset.py")
    dsave = [ast.unparse(x) for x in pyq.strip_doc(pyq.find_def(dtree, "Dataset", "save").body)]
    dload = [ast.unparse(x) for x in pyq.strip_doc(pyq.find_def(dtree, "Dataset", "load").body)]
    if dsave != ["self._data.save(path)"]:
        raise TranslateError(f"Dataset.save is not a delegation to DataContainer.save: {dsave}")
    if dload != ["container = DataContainer.load(path)", "return cls(container)"]:
        raise TranslateError(f"Dataset.load is not a delegation to DataContainer.load: {dload}")
    text = HEADER
    text += "Definition save_steps : list save_step := [" + "; ".join(s_steps) + "].\n\n"
    text += "Definition load_steps : list load_step := [" + "; ".join(l_steps) + "].\n"
    return {"Gen/C15_save.v": text, "Gen/C15_state.v": state_text}
