"""Regenerates coq/Gen/C01_columns.v: which COLUMNS the relationship table and its views carry, as a function of the column
NAMES of the input frame (DESIGN 2.3 A).

Translated from source on every run (fail closed: a statement outside the shapes below raises TranslateError):

  schema.py         id_col_name / num_col_name        f-strings of the parameter and literals     -> string concatenations
  builder.py        DatasetBuilder.add_relationships  the loop that copies the frame's columns next to the link columns
  relationships.py  RelationshipSet.__init__          self._link_cols = [num_col_name(e) for e in schema.entities]
                    RelationshipSet.attribute_names   [c for c in self._table.column_names if <cond>]
                    RelationshipSet.arrow             the `if ids:` block (id columns, then the table's columns that are not
                                                      skipped) and the `attributes` selection

Statements are compared after `ast.unparse` normalisation with the expected shape; the *conditions* that decide whether a column
is kept are translated by a small grammar: `<loop variable> in <list>`, `<loop variable> not in <list>`, `not c`, `c and c`,
`c or c`, where <list> is one of the known column lists.  Anything else (a suffix test, a regular expression, a call) is outside
the grammar.
"""

from __future__ import annotations

import ast
from pathlib import Path

from . import pyq
from .pyq import TranslateError, fail

HEADER = """(* GENERATED on every run by harness/translate/c01.py from src/lenskit/data/schema.py (id_col_name, num_col_name),
   builder.py (DatasetBuilder.add_relationships: the columns of the stored table) and relationships.py (RelationshipSet.__init__,
   attribute_names, arrow) -- do not edit.  Column names are strings; a table is the list of its column names. *)
From Coq Require Import String List Bool.
Import ListNotations.

(* Python `x in names` *)
Definition mem_s (x : string) (l : list string) : bool := existsb (String.eqb x) l.

"""


def _fstring(fn: ast.FunctionDef) -> str:
    "def f(name): return f'...{name}...'  ->  Gallina string expression over `name`"
    body = pyq.strip_doc(fn.body)
    if len(fn.args.args) != 1 or len(body) != 1 or not isinstance(body[0], ast.Return) or not isinstance(body[0].value, ast.JoinedStr):
        fail(fn, f"{fn.name}: expected a single `return f\"...\"` of one parameter")
    par = fn.args.args[0].arg
    parts = []
    for v in body[0].value.values:
        if isinstance(v, ast.Constant) and isinstance(v.value, str):
            if not v.value.isascii() or '"' in v.value:
                fail(v, "non-ASCII literal in a column name")
            parts.append(f'"{v.value}"')
        elif isinstance(v, ast.FormattedValue) and isinstance(v.value, ast.Name) and v.value.id == par and v.conversion == -1 and v.format_spec is None:
            parts.append(par)
        else:
            fail(v, f"{fn.name}: unsupported f-string part")
    if par not in parts:
        fail(fn, f"{fn.name}: the column name does not depend on the entity name")
    out = parts[-1]
    for p in reversed(parts[:-1]):
        out = f"String.append {p} ({out})"
    return par, out


def _cond(n, var: str, lists: dict[str, str]) -> str:
    "a keep / skip condition on the loop variable"
    if isinstance(n, ast.Compare) and len(n.ops) == 1 and isinstance(n.left, ast.Name) and n.left.id == var:
        tgt = pyq.dotted(n.comparators[0])
        if tgt not in lists:
            fail(n, f"membership test against something that is not a known column list ({sorted(lists)})")
        if isinstance(n.ops[0], ast.In):
            return f"(mem_s {var} {lists[tgt]})"
        if isinstance(n.ops[0], ast.NotIn):
            return f"(negb (mem_s {var} {lists[tgt]}))"
    if isinstance(n, ast.UnaryOp) and isinstance(n.op, ast.Not):
        return f"(negb {_cond(n.operand, var, lists)})"
    if isinstance(n, ast.BoolOp):
        op = " && " if isinstance(n.op, ast.And) else " || "
        return "(" + op.join(_cond(v, var, lists) for v in n.values) + ")"
    fail(n, "column condition outside the grammar (`col in <list>`, `col not in <list>`, not / and / or)")


def _expect(stmt, text: str, what: str):
    got = ast.unparse(stmt)
    if got != text:
        fail(stmt, f"{what}: expected `{text}`, found `{got[:120]}`")


def _seq(stmts, texts, what):
    if len(stmts) != len(texts):
        raise TranslateError(f"{what}: expected {len(texts)} statements, found {len(stmts)}: {[ast.unparse(s)[:60] for s in stmts]}")
    for s, t in zip(stmts, texts):
        if t is not None:
            _expect(s, t, what)


def translate(src: Path) -> dict[str, str]:
    data = Path(src) / "lenskit" / "data"
    out = [HEADER]

    # ---- schema.py: the two naming functions -------------------------------------------------------------------
    sch = pyq.parse(data / "schema.py")
    for fname in ("id_col_name", "num_col_name"):
        par, expr = _fstring(pyq.find_def(sch, None, fname))
        out.append(f"(* schema.py: {fname} *)\nDefinition {fname} ({par} : string) : string := {expr}.\n")

    # ---- builder.py: add_relationships -------------------------------------------------------------------------
    bld = pyq.parse(data / "builder.py")
    fn = pyq.find_def(bld, "DatasetBuilder", "add_relationships")
    body = pyq.strip_doc(fn.body)
    # the per-entity loop registers the number column and the id column of each entity
    loops = [s for s in body if isinstance(s, ast.For) and ast.unparse(s.iter) == "rc_def.entities.items()"]
    if len(loops) != 1 or ast.unparse(loops[0].target) != "(alias, e_type)":
        raise TranslateError("add_relationships: the loop over rc_def.entities.items() was not found exactly once")
    tail = [ast.unparse(s) for s in loops[0].body[-2:]]
    if tail != ["link_nums[num_col_name(alias)] = e_nums", "link_id_cols.add(id_col_name(alias))"]:
        raise TranslateError(f"add_relationships: the entity loop does not end by registering the link and id columns: {tail}")
    inside = {id(n) for n in ast.walk(loops[0])}
    for s in ast.walk(fn):
        if id(s) in inside:
            continue
        if isinstance(s, ast.Assign) and any(ast.unparse(t).startswith(("link_nums[", "link_id_cols[")) for t in s.targets):
            fail(s, "add_relationships: link_nums / link_id_cols modified outside the entity loop")
        if isinstance(s, ast.Call) and ast.unparse(s.func).startswith(("link_nums.", "link_id_cols.")) and ast.unparse(s.func) != "link_nums.keys":
            fail(s, "add_relationships: link_nums / link_id_cols modified outside the entity loop")
    k = body.index(loops[0])
    _expect(body[k + 1], "new_table = pa.table(link_nums)", "add_relationships: the stored table starts from the link columns")
    copy = body[k + 2]
    if not (isinstance(copy, ast.For) and ast.unparse(copy.target) == "col" and ast.unparse(copy.iter) == "table.column_names"
            and len(copy.body) == 1 and isinstance(copy.body[0], ast.If) and not copy.body[0].orelse and not copy.orelse):
        fail(copy, "add_relationships: expected `for col in table.column_names: if <cond>: ...` after the link columns")
    keep = _cond(copy.body[0].test, "col", {"link_id_cols": "(map id_col_name entities)"})
    inner = copy.body[0].body
    _expect(inner[0], "new_table = new_table.append_column(col, table.column(col))", "add_relationships: a kept column is appended")
    for s in inner[1:]:
        if "new_table" in ast.unparse(s):
            fail(s, "add_relationships: the column-copy loop touches new_table a second time")
    for s in body[k + 3:]:
        for n in ast.walk(s):
            if isinstance(n, ast.Call) and ast.unparse(n.func) in ("new_table.select", "new_table.drop", "new_table.drop_columns",
                                                                    "new_table.rename_columns", "new_table.remove_column",
                                                                    "new_table.set_column", "new_table.add_column"):
                if ast.unparse(n) != "new_table.select(list(link_nums.keys()))":
                    fail(n, "add_relationships: the stored table's columns are changed after the copy loop")
    out.append("(* builder.py: DatasetBuilder.add_relationships -- the columns of the table stored for a frame with the columns\n"
               "   `frame_cols`: the link columns of the entities, then each frame column that passes the test of the copy loop *)\n"
               "Definition stored_cols (entities frame_cols : list string) : list string :=\n"
               f"  (map num_col_name entities ++ filter (fun col => {keep}) frame_cols)%list.\n")

    # ---- relationships.py --------------------------------------------------------------------------------------
    rel = pyq.parse(data / "relationships.py")
    init = pyq.find_def(rel, "RelationshipSet", "__init__")
    link = [s for s in ast.walk(init) if isinstance(s, ast.Assign) and ast.unparse(s.targets[0]) == "self._link_cols"]
    if len(link) != 1:
        raise TranslateError("RelationshipSet.__init__: self._link_cols is not assigned exactly once")
    _expect(link[0], "self._link_cols = [num_col_name(e) for e in schema.entities]", "RelationshipSet.__init__")
    cls = next(n for n in rel.body if isinstance(n, ast.ClassDef) and n.name == "RelationshipSet")
    for n in ast.walk(cls):
        if isinstance(n, (ast.Assign, ast.AugAssign)) and n is not link[0] and "self._link_cols" in [ast.unparse(t) for t in
                                                                                                 (n.targets if isinstance(n, ast.Assign) else [n.target])]:
            fail(n, "self._link_cols is assigned outside __init__")
    out.append("(* relationships.py: RelationshipSet.__init__ -- self._link_cols *)\n"
               "Definition link_cols (entities : list string) : list string := map num_col_name entities.\n")

    an = pyq.find_def(rel, "RelationshipSet", "attribute_names")
    abody = pyq.strip_doc(an.body)
    if not (len(abody) == 1 and isinstance(abody[0], ast.Return) and isinstance(abody[0].value, ast.ListComp)):
        fail(an, "attribute_names: expected a single list comprehension")
    lc = abody[0].value
    g = lc.generators[0]
    if not (len(lc.generators) == 1 and isinstance(lc.elt, ast.Name) and isinstance(g.target, ast.Name) and lc.elt.id == g.target.id
            and ast.unparse(g.iter) == "self._table.column_names" and len(g.ifs) == 1):
        fail(lc, "attribute_names: expected [c for c in self._table.column_names if <cond>]")
    v = g.target.id
    out.append("(* relationships.py: RelationshipSet.attribute_names *)\n"
               "Definition attribute_names (entities table_cols : list string) : list string :=\n"
               f"  filter (fun {v} => {_cond(g.ifs[0], v, {'self._link_cols': '(link_cols entities)'})}) table_cols.\n")

    ar = pyq.find_def(rel, "RelationshipSet", "arrow")
    body = pyq.strip_doc(ar.body)
    _seq(body, ["table = self._table", "cols = self._link_cols", None, None, "return table"], "RelationshipSet.arrow")
    ifids, ifattr = body[2], body[3]
    if not (isinstance(ifids, ast.If) and ast.unparse(ifids.test) == "ids" and not ifids.orelse):
        fail(ifids, "arrow: expected `if ids:`")
    _seq(ifids.body, ["id_cols = {}", None, "id_tbl = pa.table(id_cols)", "cols = id_tbl.column_names", None, "table = id_tbl"], "arrow, ids block")
    idloop, cploop = ifids.body[1], ifids.body[4]
    if not (isinstance(idloop, ast.For) and ast.unparse(idloop.target) == "e" and ast.unparse(idloop.iter) == "self.schema.entity_class_names"
            and len(idloop.body) == 1 and isinstance(idloop.body[0], ast.Assign)
            and ast.unparse(idloop.body[0].targets[0]) == "id_cols[id_col_name(e)]" and not idloop.orelse):
        fail(idloop, "arrow: expected one id column per entity class, named id_col_name(e)")
    if not (isinstance(cploop, ast.For) and ast.unparse(cploop.target) == "col" and ast.unparse(cploop.iter) == "table.column_names"
            and len(cploop.body) == 2 and isinstance(cploop.body[0], ast.If) and not cploop.body[0].orelse and not cploop.orelse
            and [ast.unparse(s) for s in cploop.body[0].body] == ["continue"]):
        fail(cploop, "arrow: expected `for col in table.column_names: if <cond>: continue; <append>`")
    _expect(cploop.body[1], "id_tbl = id_tbl.append_column(col, table.column(col))", "arrow: a column that is not skipped is appended")
    skip = _cond(cploop.body[0].test, "col", {"self._link_cols": "(link_cols entities)"})
    rs = next((n for n in sch.body if isinstance(n, ast.ClassDef) and n.name == "RelationshipSchema"), None)
    if rs is None:
        raise TranslateError("schema.py: class RelationshipSchema not found")
    names_fn = [n for n in rs.body if isinstance(n, ast.FunctionDef) and n.name == "entity_class_names"]
    if len(names_fn) != 1 or [ast.unparse(s) for s in pyq.strip_doc(names_fn[0].body)] != ["return list(self.entities.keys())"]:
        raise TranslateError("schema.py: RelationshipSchema.entity_class_names is not `list(self.entities.keys())`")
    out.append("(* relationships.py: RelationshipSet.arrow(ids=True) -- one id column per entity, then every column of the table\n"
               "   that the copy loop does not skip *)\n"
               "Definition ids_view_cols (entities table_cols : list string) : list string :=\n"
               f"  (map id_col_name entities ++ filter (fun col => negb {skip}) table_cols)%list.\n")

    if not (isinstance(ifattr, ast.If) and ast.unparse(ifattr.test) == "attributes is not None" and not ifattr.orelse):
        fail(ifattr, "arrow: expected `if attributes is not None:`")
    _seq(ifattr.body, [None, None, "table = table.select(cols + attr_cols)"], "arrow, attribute selection")
    _expect(ifattr.body[0], "if isinstance(attributes, str):\n    attr_cols = [attributes]\nelse:\n    attr_cols = attributes", "arrow, attribute selection")
    _expect(ifattr.body[1], "for ac in attr_cols:\n    if ac not in table.column_names:\n        raise FieldError(self.name, ac)", "arrow, attribute selection")
    out.append("(* relationships.py: RelationshipSet.arrow(attributes=...) -- None: FieldError; `cols` are the link columns, or the id\n"
               "   columns when ids=True *)\n"
               "Definition select_cols (cols attr_cols table_cols : list string) : option (list string) :=\n"
               "  if forallb (fun ac => mem_s ac table_cols) attr_cols then Some (cols ++ attr_cols)%list else None.\n")
    return {"Gen/C01_columns.v": "\n".join(out)}
