"""Regenerates coq/Gen/C20_shape.v from data/relationships.py (DESIGN 2.3 A).

What is regenerated is the scalar logic that decides the retry budget and the layout of the combined
(row, column) key, plus the population each weighting draws from:

  _rc_combined_nums              -> key_word_bits, key_shift          (must be  (rows.astype(T) << K) + cols.astype(T))
  _check_negatives               -> shape check only                 (membership of the combined key in rc_index)
  _check_negatives_and_resample  -> budget_positive, budget_next, warn_on_exhaustion
                                    (must be: check; if any: if <test>: columns[mask] = self.sample_negatives(rows[mask],
                                     verify=True, rng=rng, max_attempts=<expr>, weighting=weighting) else: warn(DataWarning))
  sample_negatives (match stmt)  -> the population and column map of each weighting
  sample_negatives (generator)   -> shape check only: ONE generator `g = random_generator(rng)`, every draw is g.choice,
                                    `if verify:` hands g itself (never the caller's rng argument, which may be a seed) to
                                    _check_negatives_and_resample for each output column, which forwards its parameter unchanged

Anything else fails closed.
"""

from __future__ import annotations

import ast

from . import pyq
from .pyq import TranslateError, dotted, fail, strip_doc

HEADER = """(* GENERATED on every run by harness/translate/c20.py from
   src/lenskit/data/relationships.py -- do not edit. *)
From Coq Require Import ZArith Bool.
Open Scope Z_scope.

(* what a weighting draws from, and how a draw becomes a column number *)
Inductive population := PopCols | PopRecords.
Inductive colmap := ColIdentity | ColOfRecord.

"""

WORD_BITS = {"np.uint64": 64, "np.uint32": 32, "np.int64": None}


def zexpr(n, names) -> str:
    """Integer expression over the given names."""
    if isinstance(n, ast.Name):
        if n.id not in names:
            fail(n, f"unknown name {n.id}")
        return n.id
    if isinstance(n, ast.Constant) and isinstance(n.value, int) and not isinstance(n.value, bool):
        return f"({n.value})"
    if isinstance(n, ast.BinOp) and type(n.op) in (ast.Add, ast.Sub, ast.Mult):
        op = {ast.Add: "+", ast.Sub: "-", ast.Mult: "*"}[type(n.op)]
        return f"({zexpr(n.left, names)} {op} {zexpr(n.right, names)})"
    if isinstance(n, ast.UnaryOp) and isinstance(n.op, ast.USub):
        return f"(- {zexpr(n.operand, names)})"
    fail(n, "unsupported integer expression")


def zcond(n, names) -> str:
    if isinstance(n, ast.Compare) and len(n.ops) == 1:
        a, b = zexpr(n.left, names), zexpr(n.comparators[0], names)
        tbl = {ast.Gt: f"({a} >? {b})", ast.Lt: f"({a} <? {b})", ast.GtE: f"({a} >=? {b})", ast.LtE: f"({a} <=? {b})",
               ast.Eq: f"({a} =? {b})", ast.NotEq: f"(negb ({a} =? {b}))"}
        if type(n.ops[0]) in tbl:
            return tbl[type(n.ops[0])]
    if isinstance(n, ast.Name) and n.id in names:      # truthiness of an int
        return f"(negb ({n.id} =? 0))"
    if isinstance(n, ast.UnaryOp) and isinstance(n.op, ast.Not):
        return f"(negb {zcond(n.operand, names)})"
    if isinstance(n, ast.BoolOp):
        op = "&&" if isinstance(n.op, ast.And) else "||"
        return "(" + f" {op} ".join(zcond(v, names) for v in n.values) + ")"
    fail(n, "unsupported condition")


def is_log(s) -> bool:
    return (isinstance(s, ast.Expr) and isinstance(s.value, ast.Call) and (dotted(s.value.func) or "").startswith("_log."))


def body_of(fdef):
    return [s for s in strip_doc(fdef.body) if not is_log(s)]


def is_call(n, name, nargs=None):
    return isinstance(n, ast.Call) and dotted(n.func) == name and (nargs is None or len(n.args) == nargs)


def astype_of(n, var):
    """n must be <var>.astype(<dtype>) -> dotted dtype"""
    if not (isinstance(n, ast.Call) and isinstance(n.func, ast.Attribute) and n.func.attr == "astype"
            and isinstance(n.func.value, ast.Name) and n.func.value.id == var and len(n.args) == 1 and not n.keywords):
        fail(n, f"expected {var}.astype(<dtype>)")
    return dotted(n.args[0])


def key_defs(tree) -> str:
    f = pyq.find_def(tree, "MatrixRelationshipSet", "_rc_combined_nums")
    params = [a.arg for a in f.args.args]
    if params != ["self", "rows", "columns"]:
        fail(f, "unexpected parameters of _rc_combined_nums")
    b = body_of(f)
    if len(b) != 3 or not all(isinstance(s, ast.Assign) and len(s.targets) == 1 and isinstance(s.targets[0], ast.Name) for s in b[:2]) \
            or not isinstance(b[2], ast.Return):
        fail(f, "_rc_combined_nums is not `r = rows.astype(T); c = columns.astype(T); return (r << K) + c`")
    rname, cname = b[0].targets[0].id, b[1].targets[0].id
    tr, tc = astype_of(b[0].value, "rows"), astype_of(b[1].value, "columns")
    if tr != tc or WORD_BITS.get(tr) is None:
        fail(f, f"row/column words are not the same unsigned type ({tr}, {tc})")
    r = b[2].value
    if not (isinstance(r, ast.BinOp) and isinstance(r.op, ast.Add) and isinstance(r.left, ast.BinOp)
            and isinstance(r.left.op, ast.LShift) and isinstance(r.left.left, ast.Name) and r.left.left.id == rname
            and isinstance(r.left.right, ast.Constant) and isinstance(r.left.right.value, int)
            and isinstance(r.right, ast.Name) and r.right.id == cname):
        fail(r, "combined key is not (rows << K) + columns")
    k = r.left.right.value
    if not 0 <= k < WORD_BITS[tr]:
        fail(r, "shift width out of range")
    return (f"(* _rc_combined_nums: ({rname} << {k}) + {cname} on {tr} *)\n"
            f"Definition key_word_bits : Z := {WORD_BITS[tr]}.\nDefinition key_shift : Z := {k}.\n")


def check_shape(tree) -> str:
    f = pyq.find_def(tree, "MatrixRelationshipSet", "_check_negatives")
    b = body_of(f)
    ok = (len(b) == 3 and isinstance(b[0], ast.Assign) and is_call(b[0].value, "self._rc_combined_nums", 2)
          and [getattr(a, "id", None) for a in b[0].value.args] == ["rows", "columns"]
          and isinstance(b[1], ast.Assign) and is_call(b[1].value, "self.rc_index.get_indexer_for", 1)
          and getattr(b[1].value.args[0], "id", None) == b[0].targets[0].id
          and isinstance(b[2], ast.Return) and isinstance(b[2].value, ast.Compare) and len(b[2].value.ops) == 1
          and isinstance(b[2].value.ops[0], ast.GtE) and getattr(b[2].value.left, "id", None) == b[1].targets[0].id
          and isinstance(b[2].value.comparators[0], ast.Constant) and b[2].value.comparators[0].value == 0)
    if not ok:
        fail(f, "_check_negatives is not `nums = self._rc_combined_nums(rows, columns); locs = self.rc_index.get_indexer_for(nums); return locs >= 0`")
    # the index itself: built in __init__ from the same key function over the table's row and column numbers
    init = pyq.find_def(tree, "MatrixRelationshipSet", "__init__")
    found = False
    for s in ast.walk(init):
        if isinstance(s, ast.Assign) and len(s.targets) == 1 and dotted(s.targets[0]) == "self.rc_index":
            v = s.value
            if is_call(v, "pd.Index", 1) and is_call(v.args[0], "self._rc_combined_nums", 2):
                a0, a1 = v.args[0].args
                def colref(a, which):
                    return (isinstance(a, ast.Call) and isinstance(a.func, ast.Attribute) and a.func.attr == "to_numpy"
                            and is_call(a.func.value, "self._table.column", 1)
                            and getattr(a.func.value.args[0], "id", None) == which)
                if colref(a0, "row_col_name") and colref(a1, "col_col_name"):
                    found = True
    if not found:
        fail(init, "rc_index is not pd.Index(self._rc_combined_nums(<row numbers of the table>, <column numbers of the table>))")
    return "(* _check_negatives: membership of the combined key in rc_index (built from the same key over the sorted table) *)\n"


def resample_defs(tree) -> str:
    f = pyq.find_def(tree, "MatrixRelationshipSet", "_check_negatives_and_resample")
    params = [a.arg for a in f.args.args]
    if params != ["self", "rows", "columns", "max_attempts", "rng", "weighting"]:
        fail(f, "unexpected parameters of _check_negatives_and_resample")
    b = body_of(f)
    if len(b) != 2:
        fail(f, "_check_negatives_and_resample: expected `mask = check; if any(mask): ...`")
    s0, s1 = b
    if not (isinstance(s0, ast.Assign) and len(s0.targets) == 1 and isinstance(s0.targets[0], ast.Name)
            and is_call(s0.value, "self._check_negatives", 2)
            and [getattr(a, "id", None) for a in s0.value.args] == ["rows", "columns"]):
        fail(s0, "first statement is not mask = self._check_negatives(rows, columns)")
    mask = s0.targets[0].id
    if not (isinstance(s1, ast.If) and not s1.orelse and is_call(s1.test, "np.any", 1)
            and getattr(s1.test.args[0], "id", None) == mask):
        fail(s1, "second statement is not `if np.any(mask):` without else")
    inner = [s for s in s1.body if not is_log(s)]
    if len(inner) != 1 or not isinstance(inner[0], ast.If):
        fail(s1, "body of `if np.any(mask)` is not a single if/else on the budget")
    bi = inner[0]
    test = zcond(bi.test, {"max_attempts"})
    then = [s for s in bi.body if not is_log(s)]
    if len(then) != 1 or not isinstance(then[0], ast.Assign) or len(then[0].targets) != 1:
        fail(bi, "budget branch is not a single assignment")
    tgt, call = then[0].targets[0], then[0].value

    def masked(n, arr):
        return (isinstance(n, ast.Subscript) and isinstance(n.value, ast.Name) and n.value.id == arr
                and isinstance(n.slice, ast.Name) and n.slice.id == mask)
    if not masked(tgt, "columns"):
        fail(tgt, "resampled values are not stored into columns[mask]")
    if not (is_call(call, "self.sample_negatives", 1) and masked(call.args[0], "rows")):
        fail(call, "recursive call is not self.sample_negatives(rows[mask], ...)")
    kw = {k.arg: k.value for k in call.keywords}
    if set(kw) != {"verify", "rng", "max_attempts", "weighting"}:
        fail(call, f"recursive call has unexpected keywords {sorted(kw)}")
    if not (isinstance(kw["verify"], ast.Constant) and kw["verify"].value is True):
        fail(call, "recursive call does not verify")
    if getattr(kw["rng"], "id", None) != "rng" or getattr(kw["weighting"], "id", None) != "weighting":
        fail(call, "recursive call does not forward rng / weighting")
    nxt = zexpr(kw["max_attempts"], {"max_attempts"})
    other = [s for s in bi.orelse if not is_log(s) and not isinstance(s, ast.Pass)]
    warn = False
    if other:
        if len(other) != 1 or not (isinstance(other[0], ast.Expr) and is_call(other[0].value, "warnings.warn")):
            fail(bi, "exhausted branch is neither empty nor a single warnings.warn")
        w = other[0].value
        cat = w.args[1] if len(w.args) > 1 else next((k.value for k in w.keywords if k.arg == "category"), None)
        if getattr(cat, "id", None) != "DataWarning":
            fail(w, "exhaustion warning is not a DataWarning")
        warn = True
    return ("(* _check_negatives_and_resample: `if np.any(mask): if <budget_positive>: columns[mask] = "
            "self.sample_negatives(rows[mask], verify=True, max_attempts=<budget_next>, ...) else: <warn>` *)\n"
            f"Definition budget_positive (max_attempts : Z) : bool := {test}.\n"
            f"Definition budget_next (max_attempts : Z) : Z := {nxt}.\n"
            f"Definition warn_on_exhaustion : bool := {'true' if warn else 'false'}.\n")


def generator_name(f) -> str:
    """The local name that holds THE generator of one sample_negatives call: the target of the single top-level
    `<g> = random_generator(rng)`.  Every draw and every hand-over to the verification step must use this very name
    (the model threads ONE draw stream through all retry levels); `rng` itself -- what the caller passed, perhaps a
    seed -- may be used for nothing else unless it is the rebound name."""
    params = [a.arg for a in f.args.args] + [a.arg for a in f.args.kwonlyargs]
    if "rng" not in params:
        fail(f, "sample_negatives has no rng parameter")
    binds = [s for s in f.body if isinstance(s, ast.Assign) and is_call(s.value, "random_generator")]
    nested = [n for n in ast.walk(f) if is_call(n, "random_generator")]
    if len(binds) != 1 or len(nested) != 1:
        fail(f, "sample_negatives does not create its generator by exactly one top-level `<g> = random_generator(rng)`")
    b = binds[0]
    if not (len(b.targets) == 1 and isinstance(b.targets[0], ast.Name) and len(b.value.args) == 1 and not b.value.keywords
            and getattr(b.value.args[0], "id", None) == "rng"):
        fail(b, "generator is not `<g> = random_generator(rng)`")
    g = b.targets[0].id
    for n in ast.walk(f):
        if isinstance(n, ast.Name) and isinstance(n.ctx, ast.Store) and n.id in (g, "rng") and n is not b.targets[0]:
            fail(n, f"{n.id} is bound a second time in sample_negatives")
    if g != "rng":
        # the caller's argument (possibly a seed) must not be used once the generator exists
        for n in ast.walk(f):
            if isinstance(n, ast.Name) and isinstance(n.ctx, ast.Load) and n.id == "rng" and n is not b.value.args[0]:
                fail(n, f"the caller's `rng` argument is used again after the generator `{g}` was made from it: every retry "
                        "level would build its own generator (a seed would be replayed at each level), the model threads ONE stream")
    return g


def verify_loop(f, g) -> str:
    """after the match: `if verify:` hands (rows, columns | columns[:, c], max_attempts, <g>, weighting) to
    _check_negatives_and_resample, once for n=None and once per output column otherwise."""
    ifs = [s for s in f.body if isinstance(s, ast.If) and getattr(s.test, "id", None) == "verify"]
    if len(ifs) != 1 or ifs[0].orelse:
        fail(f, "sample_negatives has no single `if verify:` without else")
    calls = [n for n in ast.walk(f) if is_call(n, "self._check_negatives_and_resample")]
    inside = [n for n in ast.walk(ifs[0]) if is_call(n, "self._check_negatives_and_resample")]
    if len(calls) != 2 or len(inside) != 2:
        fail(ifs[0], "expected exactly two calls of self._check_negatives_and_resample, both under `if verify:`")
    for c in calls:
        if c.keywords or len(c.args) != 5:
            fail(c, "verification call is not _check_negatives_and_resample(rows, <columns>, max_attempts, <generator>, weighting)")
        a = c.args
        if getattr(a[0], "id", None) != "rows" or getattr(a[2], "id", None) != "max_attempts" or getattr(a[4], "id", None) != "weighting":
            fail(c, "verification call does not pass rows / max_attempts / weighting")
        if getattr(a[3], "id", None) != g:
            fail(c, f"verification call is handed `{ast.unparse(a[3])}`, not the generator `{g}` the initial draw came from "
                    "(the model threads ONE draw stream through the initial draw and all retry levels)")
    inner = ifs[0].body
    if not (len(inner) == 1 and isinstance(inner[0], ast.If) and isinstance(inner[0].test, ast.Compare)
            and ast.unparse(inner[0].test) == "n is None"):
        fail(ifs[0], "`if verify:` is not `if n is None: <check> else: for c in range(n): <check column c>`")
    one, many = inner[0].body, inner[0].orelse
    if not (len(one) == 1 and isinstance(one[0], ast.Expr) and one[0].value in calls
            and getattr(one[0].value.args[1], "id", None) == "columns"):
        fail(inner[0], "n=None branch is not a single check of `columns`")
    if not (len(many) == 1 and isinstance(many[0], ast.For) and not many[0].orelse
            and ast.unparse(many[0].iter) == "range(n)" and isinstance(many[0].target, ast.Name)
            and len(many[0].body) == 1 and isinstance(many[0].body[0], ast.Expr) and many[0].body[0].value in calls
            and ast.unparse(many[0].body[0].value.args[1]) == f"columns[:, {many[0].target.id}]"):
        fail(inner[0], "multi-column branch is not `for c in range(n): <check columns[:, c]>`")
    return f"(* sample_negatives: one generator `{g} = random_generator(rng)`; every draw is {g}.choice, and `if verify:` hands {g} itself to the check of each output column *)\n"


def weighting_defs(tree) -> str:
    f = pyq.find_def(tree, "MatrixRelationshipSet", "sample_negatives")
    G = generator_name(f)
    ms = [s for s in f.body if isinstance(s, ast.Match)]
    if len(ms) != 1 or getattr(ms[0].subject, "id", None) != "weighting":
        fail(f, "sample_negatives has no single `match weighting`")

    def names_of(pat):
        if isinstance(pat, ast.MatchValue) and isinstance(pat.value, ast.Constant) and isinstance(pat.value.value, str):
            return [pat.value.value]
        if isinstance(pat, ast.MatchOr):
            return [x for p in pat.patterns for x in names_of(p)]
        if isinstance(pat, ast.MatchAs) and pat.pattern is None:
            return ["_"]
        fail(pat, "unsupported case pattern")

    def population(n):
        """n = rng.choice(<pop>, size=shape, replace=True)"""
        if not (is_call(n, G + ".choice", 1)):
            fail(n, f"draw is not {G}.choice(<population>, ...) on the generator `{G} = random_generator(rng)`")
        kw = {k.arg: k.value for k in n.keywords}
        if set(kw) != {"size", "replace"} or getattr(kw["size"], "id", None) != "shape" \
                or not (isinstance(kw["replace"], ast.Constant) and kw["replace"].value is True):
            fail(n, "draw is not rng.choice(<population>, size=shape, replace=True)")
        d = dotted(n.args[0])
        if d == "self.n_cols":
            return "PopCols"
        if d == "self._table.num_rows":
            return "PopRecords"
        fail(n, f"unknown population {d}")

    draws = [n for n in ast.walk(f) if isinstance(n, ast.Call) and isinstance(n.func, ast.Attribute)
             and getattr(n.func.value, "id", None) in (G, "rng")]
    in_match = [n for n in ast.walk(ms[0]) if n in draws]
    if len(draws) != len(in_match):
        fail(f, "the generator is used outside `match weighting`")
    out = {}
    for case in ms[0].cases:
        if case.guard is not None:
            fail(case, "guarded case")
        nm = names_of(case.pattern)
        body = [s for s in case.body if not is_log(s)]
        if nm == ["_"]:
            if not (len(body) == 1 and isinstance(body[0], ast.Raise)):
                fail(case, "default case does not raise")
            continue
        if len(body) == 1:
            s = body[0]
            if not (isinstance(s, ast.Assign) and getattr(s.targets[0], "id", None) == "columns"):
                fail(s, "case does not assign columns")
            res = (population(s.value), "ColIdentity")
        elif len(body) == 3:
            a, t, c = body
            ok = (isinstance(a, ast.Assign) and isinstance(a.targets[0], ast.Name)
                  and isinstance(a.value, ast.Call) and isinstance(a.value.func, ast.Attribute) and a.value.func.attr == "to_numpy"
                  and is_call(a.value.func.value, "self._table.column", 1)
                  and is_call(a.value.func.value.args[0], "num_col_name", 1)
                  and dotted(a.value.func.value.args[0].args[0]) == "self.col_type"
                  and isinstance(t, ast.Assign) and isinstance(t.targets[0], ast.Name)
                  and isinstance(c, ast.Assign) and getattr(c.targets[0], "id", None) == "columns"
                  and isinstance(c.value, ast.Subscript) and getattr(c.value.value, "id", None) == a.targets[0].id
                  and getattr(c.value.slice, "id", None) == t.targets[0].id)
            if not ok:
                fail(case, "case is not `ccol = <column numbers of the table>; t = rng.choice(...); columns = ccol[t]`")
            res = (population(t.value), "ColOfRecord")
        else:
            fail(case, "unsupported case body")
        for x in nm:
            out[x] = res
    if set(out) != {"uniform", "popular", "popularity"} or out["popular"] != out["popularity"]:
        fail(ms[0], f"unexpected weighting names {sorted(out)}")
    # after the match: columns = np.require(columns, "i4"), then the verify loop over columns
    return (verify_loop(f, G) + "(* sample_negatives, `match weighting` *)\n"
            f"Definition uniform_population : population := {out['uniform'][0]}.\n"
            f"Definition uniform_colmap : colmap := {out['uniform'][1]}.\n"
            f"Definition popular_population : population := {out['popular'][0]}.\n"
            f"Definition popular_colmap : colmap := {out['popular'][1]}.\n")


def translate(src) -> dict:
    tree = pyq.parse(src / "lenskit" / "data" / "relationships.py")
    text = HEADER + key_defs(tree) + "\n" + check_shape(tree) + "\n" + resample_defs(tree) + "\n" + weighting_defs(tree)
    return {"Gen/C20_shape.v": text}
