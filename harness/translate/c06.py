"""Regenerates coq/Gen/C06_metrics.v from src/lenskit/metrics/ranking/*.py (DESIGN 2.3 A).

Every `measure_list` of the ranking metrics, `RankingMetricBase.truncate`, `array_dcg` and `fixed_dcg`
are translated statement by statement into Gallina over the vocabulary of Model/C06_ranking.v
(item lists, masks, arrays, pandas series, exceptions).  The translator is typed and fail-closed:
a statement, expression, call, keyword or method outside the tables below raises TranslateError,
the generated file is replaced by a stub and the theorems that `Require` it stop compiling.

Control flow is translated in continuation style: `if c: A` followed by `rest` becomes
`if c then [A; rest] else [rest]`, so early returns, raises and conditional re-assignments need no
special cases.  `x is None` / `x is not None` tests on optional values become `match`es that refine
the kind of `x` in each branch.

Kinds: N (nat), IntC (integer literal), Q, Bool, Flag (truthiness of an optional string), Res,
Ids, Mask, NArr, Arr, IL, TL, OptN, Ser, OptSer, SerR (re-indexed series), Disc, NoneK, Tup1 k.

Modelling assumptions written into the translation (listed in the evidence): `np.require(x, float32)`
and `np.nan_to_num` are the identity (gains are finite and float32-representable), division of NumPy
scalars never raises (0/0 and x/0 are "not finite").
"""

from __future__ import annotations

import ast
from fractions import Fraction

from . import pyq
from .pyq import TranslateError, dotted, fail, find_def, strip_doc

HEADER = """(* GENERATED on every run by harness/translate/c06.py from
   src/lenskit/metrics/ranking/{_base,_hit,_pr,_recip,_rbp,_dcg,_pop}.py -- do not edit. *)
From Coq Require Import ZArith QArith Qabs List Bool.
From LK Require Import Lib.QLib Lib.RankLib Model.C06_ranking.
Import ListNotations.
Open Scope Q_scope.

"""

NUMERIC = ("N", "IntC", "Q")


def qlit(v) -> str:
    f = Fraction(v)
    return f"({f.numerator} # {f.denominator})"


def as_q(n, ck):
    c, k = ck
    if k == "Q":
        return c
    if k == "N":
        return f"(Qofnat {c})"
    if k == "IntC":
        return qlit(int(c))
    fail(n, f"kind {k} used as a number")


def as_n(n, ck):
    c, k = ck
    if k == "N":
        return c
    if k == "IntC":
        if int(c) < 0:
            fail(n, "negative integer literal used as a count")
        return f"{int(c)}%nat"
    fail(n, f"kind {k} used as a count")


class Fn:
    def __init__(self, env, ret, raises: bool):
        self.env0 = dict(env)
        self.ret = ret          # "Res" | "IL" | "Q"
        self.raises = raises

    # ---- expressions --------------------------------------------------------------------
    def expr(self, n, env):
        if isinstance(n, ast.Constant):
            v = n.value
            if isinstance(v, bool):
                return ("true" if v else "false"), "Bool"
            if isinstance(v, int):
                return str(v), "IntC"
            if isinstance(v, float):
                return qlit(v), "Q"
            fail(n, "unsupported constant")
        if isinstance(n, ast.Name):
            if n.id not in env:
                fail(n, f"unknown name {n.id}")
            return env[n.id]
        if isinstance(n, ast.Attribute):
            d = dotted(n)
            if d in env:
                ck = env[d]
                if ck[1] == "NoneK":
                    fail(n, f"{d} is read where it is known to be None")
                return ck
            if d == "np.nan":
                return "RNone", "Res"
            c, k = self.expr(n.value, env)
            if (k, n.attr) == ("IL", "ordered"):
                return f"(il_ordered {c})", "Bool"
            if (k, n.attr) == ("SerR", "values"):
                return c, "Arr"
            if (k, n.attr) == ("Ser", "values"):
                return f"(ser_values {c})", "Arr"
            fail(n, f"unsupported attribute .{n.attr} on kind {k}")
        if isinstance(n, ast.BinOp):
            a = self.expr(n.left, env)
            b = self.expr(n.right, env)
            return self.binop(n, a, b)
        if isinstance(n, ast.IfExp):
            a = self.expr(n.body, env)
            b = self.expr(n.orelse, env)
            if a[1] in NUMERIC and b[1] in NUMERIC:
                return "(" + self.cond(n.test, env, lambda e: as_q(n, a), lambda e: as_q(n, b)) + ")", "Q"
            fail(n, "conditional expression over non-numbers")
        if isinstance(n, ast.Subscript):
            return self.subscript(n, env)
        if isinstance(n, ast.Call):
            return self.call(n, env)
        if isinstance(n, ast.Compare):
            return self.compare(n, env), "Bool"
        fail(n, "unsupported expression")

    def binop(self, n, a, b):
        op = type(n.op)
        if a[1] not in NUMERIC or b[1] not in NUMERIC:
            fail(n, f"arithmetic on kinds {a[1]}, {b[1]}")
        if op is ast.Div:
            return f"(np_div {as_q(n, a)} {as_q(n, b)})", "Res"
        if a[1] in ("N", "IntC") and b[1] in ("N", "IntC"):
            if op is ast.Add:
                return f"({as_n(n, a)} + {as_n(n, b)})%nat", "N"
            fail(n, "integer arithmetic other than +")
        f = {ast.Add: "Qplus", ast.Sub: "Qminus", ast.Mult: "Qmult"}.get(op)
        if f is None:
            fail(n, "unsupported arithmetic operator")
        return f"({f} {as_q(n, a)} {as_q(n, b)})", "Q"

    def compare(self, n, env):
        if len(n.ops) != 1:
            fail(n, "chained comparison")
        a = self.expr(n.left, env)
        b = self.expr(n.comparators[0], env)
        if a[1] in ("N", "IntC") and b[1] in ("N", "IntC"):
            x, y = as_n(n, a), as_n(n, b)
            tbl = {ast.Eq: f"(Nat.eqb {x} {y})", ast.NotEq: f"(negb (Nat.eqb {x} {y}))",
                   ast.Lt: f"(Nat.ltb {x} {y})", ast.Gt: f"(Nat.ltb {y} {x})",
                   ast.LtE: f"(Nat.leb {x} {y})", ast.GtE: f"(Nat.leb {y} {x})"}
            if type(n.ops[0]) in tbl:
                return tbl[type(n.ops[0])]
        fail(n, f"unsupported comparison of kinds {a[1]}, {b[1]}")

    def subscript(self, n, env):
        c, k = self.expr(n.value, env)
        s = n.slice
        if isinstance(s, ast.Slice):
            if s.lower is not None or s.step is not None or s.upper is None:
                fail(n, "slice other than [:n]")
            u = as_n(n, self.expr(s.upper, env))
            if k == "Arr":
                return f"(firstn {u} {c})", "Arr"
            if k == "IL":
                return f"(il_slice_to {c} {u})", "IL"
            fail(n, f"slice of kind {k}")
        if isinstance(s, ast.Constant) and s.value == 0 and k == "NArr":
            return f"(nth 0 {c} 0%nat)", "N"
        i = self.expr(s, env)
        if k == "Arr" and i[1] == "Mask":
            return f"(mask_select {c} {i[0]})", "Arr"
        fail(n, f"unsupported subscript of kind {k}")

    def kw(self, n, allowed):
        got = {k.arg: k.value for k in n.keywords}
        if set(got) != set(allowed):
            fail(n, f"keywords {sorted(got)} where {sorted(allowed)} are expected")
        return got

    def call(self, n, env):
        d = dotted(n.func)
        if d is not None and d in env and env[d][1] == "Disc":
            self.kw(n, [])
            (a,) = [self.expr(x, env) for x in n.args]
            if a[1] != "NArr":
                fail(n, "discount applied to something other than the rank array")
            return f"(map {env[d][0]} {a[0]})", "Arr"
        if d in FUNCS:
            return FUNCS[d](self, n, env)
        if isinstance(n.func, ast.Attribute):
            recv = self.expr(n.func.value, env)
            key = (recv[1], n.func.attr)
            if key in METHODS:
                return METHODS[key](self, n, env, recv)
            fail(n, f"method .{n.func.attr} on kind {recv[1]} outside the whitelist")
        fail(n, f"call outside the whitelist: {d}")

    def args(self, n, env, kinds, kws=()):
        self.kw(n, kws)
        if len(n.args) != len(kinds):
            fail(n, f"{len(n.args)} positional arguments where {len(kinds)} are expected")
        out = []
        for a, want in zip(n.args, kinds):
            ck = self.expr(a, env)
            if want == "num":
                if ck[1] not in NUMERIC:
                    fail(a, f"argument of kind {ck[1]}, number expected")
            elif want == "n":
                ck = (as_n(a, ck), "N")
            elif ck[1] != want:
                fail(a, f"argument of kind {ck[1]}, {want} expected")
            out.append(ck)
        return out

    # ---- conditions (continuation style) ------------------------------------------------
    def cond(self, t, env, kt, kf):
        if isinstance(t, ast.BoolOp):
            vals = t.values
            if isinstance(t.op, ast.And):
                if len(vals) == 1:
                    return self.cond(vals[0], env, kt, kf)
                rest = ast.BoolOp(op=ast.And(), values=vals[1:])
                return self.cond(vals[0], env, lambda e: self.cond(rest, e, kt, kf), kf)
            if len(vals) == 1:
                return self.cond(vals[0], env, kt, kf)
            rest = ast.BoolOp(op=ast.Or(), values=vals[1:])
            return self.cond(vals[0], env, kt, lambda e: self.cond(rest, e, kt, kf))
        if isinstance(t, ast.UnaryOp) and isinstance(t.op, ast.Not):
            return self.cond(t.operand, env, kf, kt)
        if (isinstance(t, ast.Compare) and len(t.ops) == 1 and isinstance(t.ops[0], (ast.Is, ast.IsNot))
                and isinstance(t.comparators[0], ast.Constant) and t.comparators[0].value is None):
            d = dotted(t.left)
            if d is None or d not in env:
                fail(t, "None test on something that is not a variable")
            c, k = env[d]
            yes, no = (kf, kt) if isinstance(t.ops[0], ast.Is) else (kt, kf)   # yes: value present
            if k == "NoneK":
                return no(env)
            if not k.startswith("Opt"):
                return yes(env)
            e1, e0 = dict(env), dict(env)
            e1[d] = (c + "_", k[3:])
            e0[d] = (c, "NoneK")
            return f"match {c} with Some {c}_ => ({yes(e1)}) | None => ({no(e0)}) end"
        # truthiness of a value
        d = dotted(t)
        if d is not None and d in env and env[d][1] in ("OptN", "NoneK"):
            c, k = env[d]
            if k == "NoneK":
                return kf(env)
            e1, e0 = dict(env), dict(env)
            e1[d] = (c + "_", "N")
            e0[d] = (c, "NoneK")
            return (f"match {c} with Some {c}_ => (if Nat.eqb {c}_ 0 then ({kf(e1)}) else ({kt(e1)})) "
                    f"| None => ({kf(e0)}) end")
        c, k = self.expr(t, env)
        if k in ("Bool", "Flag"):
            return f"if {c} then ({kt(env)}) else ({kf(env)})"
        if k == "N":
            return f"if Nat.eqb {c} 0 then ({kf(env)}) else ({kt(env)})"
        fail(t, f"condition of kind {k}")

    # ---- statements ---------------------------------------------------------------------
    def stmts(self, body, env, cont):
        """code for `body` followed by whatever `cont(env)` produces; cont=None: end of function"""
        if not body:
            if cont is None:
                raise TranslateError("control reaches the end of a function without a return")
            return cont(env)
        s, rest = body[0], body[1:]
        nxt = lambda e: self.stmts(rest, e, cont)  # noqa: E731
        if isinstance(s, ast.Expr) and isinstance(s.value, ast.Constant) and isinstance(s.value.value, str):
            return nxt(env)
        if isinstance(s, ast.Return):
            if rest:
                fail(rest[0], "statement after return")
            if s.value is None:
                fail(s, "bare return")
            return self.ret_code(s, self.expr(s.value, env))
        if isinstance(s, ast.Raise):
            if rest:
                fail(rest[0], "statement after raise")
            if not self.raises:
                fail(s, "raise in a function modelled as total")
            exc = s.exc.func.id if isinstance(s.exc, ast.Call) and isinstance(s.exc.func, ast.Name) else None
            code = {"ValueError": "EValue", "KeyError": "EKey"}.get(exc)
            if code is None:
                fail(s, "raise of an exception outside the table")
            return f"Raise {code}"
        if isinstance(s, ast.If):
            return self.cond(s.test, env,
                             lambda e: self.stmts(s.body, e, nxt),
                             lambda e: self.stmts(s.orelse, e, nxt))
        if isinstance(s, ast.Assign):
            if len(s.targets) != 1:
                fail(s, "multiple assignment targets")
            tgt = s.targets[0]
            # recs = self.truncate(recs): may raise
            if isinstance(s.value, ast.Call) and dotted(s.value.func) == "self.truncate":
                if not (self.raises and isinstance(tgt, ast.Name)):
                    fail(s, "truncate outside a metric body")
                (a,) = self.args(s.value, env, ["IL"])
                v = "v_" + tgt.id
                e2 = dict(env)
                e2[tgt.id] = (v, "IL")
                return f"match truncate self_k {a[0]} with Raise e => Raise e | Ret {v} =>\n  {nxt(e2)} end"
            if isinstance(tgt, ast.Subscript):
                if not isinstance(tgt.value, ast.Name):
                    fail(s, "indexed store into something that is not a variable")
                name = tgt.value.id
                arr = self.expr(tgt.value, env)
                idx = self.expr(tgt.slice, env)
                val = self.expr(s.value, env)
                if arr[1] != "Arr" or idx[1] != "Mask" or val[1] not in NUMERIC:
                    fail(s, "indexed store other than array[mask] = number")
                e2 = dict(env)
                e2[name] = ("v_" + name, "Arr")
                return f"let v_{name} := mask_set {arr[0]} {idx[0]} {as_q(s, val)} in\n  {nxt(e2)}"
            c, k = self.expr(s.value, env)
            if isinstance(tgt, ast.Tuple):
                if not (len(tgt.elts) == 1 and isinstance(tgt.elts[0], ast.Name) and isinstance(k, tuple) and k[0] == "Tup1"):
                    fail(s, "tuple unpacking other than (x,) = <one-element tuple>")
                name, k = tgt.elts[0].id, k[1]
            elif isinstance(tgt, ast.Name):
                name = tgt.id
            else:
                fail(s, "unsupported assignment target")
            if isinstance(k, tuple) or k in ("IntC",):
                if k == "IntC":
                    c, k = f"{int(c)}%nat", "N"
                else:
                    fail(s, "tuple bound to a single name")
            e2 = dict(env)
            e2[name] = ("v_" + name, k)
            return f"let v_{name} := {c} in\n  {nxt(e2)}"
        fail(s, "unsupported statement")

    def ret_code(self, n, ck):
        c, k = ck
        if self.ret == "Res":
            if k == "Res":
                v = c
            elif k in NUMERIC:
                v = f"(RVal {as_q(n, ck)})"
            else:
                fail(n, f"return of kind {k} from a metric")
            return f"Ret {v}" if self.raises else v
        if self.ret == "IL":
            if k != "IL":
                fail(n, f"return of kind {k} where an item list is expected")
            return f"Ret {c}"
        if self.ret == "Q":
            if k not in NUMERIC:
                fail(n, f"return of kind {k} where a number is expected")
            return as_q(n, ck)
        raise TranslateError("unknown return kind")

    def function(self, fdef, name, params, ret_type):
        body = self.stmts(strip_doc(fdef.body), dict(self.env0), None)
        return f"Definition {name} {params} : {ret_type} :=\n  {body}.\n"


# ---- library calls ------------------------------------------------------------------------


def _len(self, n, env):
    self.kw(n, [])
    (a,) = [self.expr(x, env) for x in n.args]
    f = {"IL": "il_len", "TL": "tl_len", "Ids": "@length Z", "NArr": "@length nat", "Arr": "@length Q", "Mask": "@length bool"}.get(a[1])
    if f is None:
        fail(n, f"len of kind {a[1]}")
    return f"({f} {a[0]})", "N"


def _min(self, n, env):
    a, b = self.args(n, env, ["n", "n"])
    return f"(Nat.min {a[0]} {b[0]})", "N"


def _isin(self, n, env):
    a, b = self.args(n, env, ["Ids", "Ids"])
    return f"(np_isin {a[0]} {b[0]})", "Mask"


def _any(self, n, env):
    (a,) = self.args(n, env, ["Mask"])
    return f"(np_any {a[0]})", "Bool"


def _nonzero(self, n, env):
    (a,) = self.args(n, env, ["Mask"])
    return f"(np_nonzero {a[0]})", ("Tup1", "NArr")


def _arange(self, n, env):
    self.kw(n, [])
    if len(n.args) == 1:
        (a,) = self.args(n, env, ["n"])
        return f"(np_arange 0 {a[0]})", "NArr"
    a, b = self.args(n, env, ["n", "n"])
    return f"(np_arange {a[0]} {b[0]})", "NArr"


def _power(self, n, env):
    a, b = self.args(n, env, ["Q", "NArr"])
    return f"(np_power {a[0]} {b[0]})", "Arr"


def _sum(self, n, env):
    (a,) = self.args(n, env, ["Arr"])
    return f"(Qsum {a[0]})", "Q"


def _dot(self, n, env):
    a, b = self.args(n, env, ["Arr", "Arr"])
    return f"(dot {a[0]} {b[0]})", "Q"


def _maximum(self, n, env):
    a, b = self.args(n, env, ["Arr", "num"])
    return f"(np_maximum {a[0]} {as_q(n, b)})", "Arr"


def _reciprocal(self, n, env):
    (a,) = self.args(n, env, ["Arr"])
    return f"(np_reciprocal {a[0]})", "Arr"


def _nan_to_num(self, n, env):
    (a,) = self.args(n, env, ["Arr"])
    return a            # assumption: finite scores


def _require(self, n, env):
    self.kw(n, [])
    if len(n.args) != 2 or dotted(n.args[1]) != "np.float32":
        fail(n, "np.require with something other than np.float32")
    a = self.expr(n.args[0], env)
    if a[1] != "Arr":
        fail(n, "np.require of a non-array")
    return a            # assumption: float32-representable gains


def _zeros_like(self, n, env):
    kws = self.kw(n, ["dtype"])
    if dotted(kws["dtype"]) != "np.float32" or len(n.args) != 1:
        fail(n, "np.zeros_like with unexpected arguments")
    a = self.expr(n.args[0], env)
    if a[1] != "Ids":
        fail(n, "np.zeros_like of something other than the identifiers")
    return f"(np_zeros (length {a[0]}))", "Arr"


def _array_dcg(self, n, env):
    a, b = self.args(n, env, ["Arr", "Disc"])
    return f"(array_dcg {a[0]} {b[0]})", "Q"


def _fixed_dcg(self, n, env):
    a, b = self.args(n, env, ["n", "Disc"])
    return f"(fixed_dcg {a[0]} {b[0]})", "Q"


FUNCS = {"len": _len, "min": _min, "np.isin": _isin, "np.any": _any, "np.nonzero": _nonzero, "np.arange": _arange,
         "np.power": _power, "np.sum": _sum, "np.dot": _dot, "np.maximum": _maximum, "np.reciprocal": _reciprocal,
         "np.nan_to_num": _nan_to_num, "np.require": _require, "np.zeros_like": _zeros_like,
         "array_dcg": _array_dcg, "fixed_dcg": _fixed_dcg}


def _m_ids_il(self, n, env, recv):
    self.args(n, env, [])
    return f"(il_ids {recv[0]})", "Ids"


def _m_ids_tl(self, n, env, recv):
    self.args(n, env, [])
    return f"(tl_ids {recv[0]})", "Ids"


def _m_sum_mask(self, n, env, recv):
    self.args(n, env, [])
    return f"(mask_count {recv[0]})", "N"


def _m_field(self, n, env, recv):
    kws = self.kw(n, ["index"])
    ok = (len(n.args) == 2 and dotted(n.args[0]) == "self.gain"
          and isinstance(n.args[1], ast.Constant) and n.args[1].value == "pandas"
          and isinstance(kws["index"], ast.Constant) and kws["index"].value == "ids")
    if not ok:
        fail(n, "test.field called with something other than (self.gain, 'pandas', index='ids')")
    return f"(tl_field {recv[0]})", "OptSer"


def _m_reindex(self, n, env, recv):
    kws = self.kw(n, ["fill_value"])
    if len(n.args) != 1:
        fail(n, "reindex arguments")
    items = self.expr(n.args[0], env)
    fill = self.expr(kws["fill_value"], env)
    if items[1] != "Ids" or fill[1] not in NUMERIC:
        fail(n, "reindex by something other than the identifiers / non-numeric fill value")
    return f"(ser_reindex {recv[0]} {items[0]} {as_q(n, fill)})", "SerR"


def _m_nlargest(self, n, env, recv):
    kws = self.kw(n, ["n"])
    if n.args:
        fail(n, "nlargest positional arguments")
    k = as_n(n, self.expr(kws["n"], env))
    return f"(ser_nlargest {k} {recv[0]})", "Ser"


def _m_sort_values(self, n, env, recv):
    kws = self.kw(n, ["ascending"])
    if n.args or not (isinstance(kws["ascending"], ast.Constant) and kws["ascending"].value is False):
        fail(n, "sort_values other than ascending=False")
    return f"(ser_sort_desc {recv[0]})", "Ser"


def _m_mean(self, n, env, recv):
    self.args(n, env, [])
    return f"(arr_mean {recv[0]})", "Res"


METHODS = {("IL", "ids"): _m_ids_il, ("TL", "ids"): _m_ids_tl, ("Mask", "sum"): _m_sum_mask,
           ("TL", "field"): _m_field, ("Ser", "reindex"): _m_reindex, ("Ser", "nlargest"): _m_nlargest,
           ("Ser", "sort_values"): _m_sort_values, ("SerR", "mean"): _m_mean}


# ---- per-class drivers ----------------------------------------------------------------------


def class_def(tree, cls):
    cs = [n for n in tree.body if isinstance(n, ast.ClassDef) and n.name == cls]
    if len(cs) != 1:
        raise TranslateError(f"class {cls} not found exactly once")
    return cs[0]


def check_class(tree, cls, stored: dict):
    """The class derives from RankingMetricBase, does not override truncate, and its __init__ stores
    each constructor argument in the attribute the body reads (`self.x = x`), passing k to the base."""
    c = class_def(tree, cls)
    bases = [dotted(b) for b in c.bases]
    if "RankingMetricBase" not in bases:
        raise TranslateError(f"{cls} does not derive from RankingMetricBase: {bases}")
    names = [n.name for n in c.body if isinstance(n, ast.FunctionDef)]
    if "truncate" in names:
        raise TranslateError(f"{cls} overrides truncate")
    if not stored:
        if "__init__" in names:
            raise TranslateError(f"{cls} defines an __init__ that is not modelled")
        return {}
    init = find_def(tree, cls, "__init__")
    got, base_k = {}, False
    for s in strip_doc(init.body):
        if isinstance(s, ast.Assign) and len(s.targets) == 1 and dotted(s.targets[0]) and dotted(s.targets[0]).startswith("self.") \
                and isinstance(s.value, ast.Name):
            got[dotted(s.targets[0])[5:]] = s.value.id
        elif (isinstance(s, ast.Expr) and isinstance(s.value, ast.Call) and dotted(s.value.func) == "super().__init__"):
            pass
        elif isinstance(s, ast.Expr) and isinstance(s.value, ast.Call) and isinstance(s.value.func, ast.Attribute) \
                and s.value.func.attr == "__init__" and isinstance(s.value.func.value, ast.Call) \
                and dotted(s.value.func.value.func) == "super":
            a = s.value
            if (len(a.args) == 1 and isinstance(a.args[0], ast.Name) and a.args[0].id == "k" and not a.keywords) or \
               (not a.args and len(a.keywords) == 1 and a.keywords[0].arg == "k" and isinstance(a.keywords[0].value, ast.Name)
                    and a.keywords[0].value.id == "k"):
                base_k = True
            else:
                raise TranslateError(f"{cls}.__init__ passes something other than k to the base class")
        else:
            raise TranslateError(f"{cls}.__init__: statement outside the whitelist: {ast.dump(s)[:120]}")
    if not base_k:
        raise TranslateError(f"{cls}.__init__ does not pass k to RankingMetricBase")
    for attr in stored:
        if got.get(attr) != attr:
            raise TranslateError(f"{cls}.__init__ does not store argument {attr} in self.{attr}")
    # defaults of the keyword-only / positional arguments
    defaults = {}
    a = init.args
    pos = a.posonlyargs + a.args
    for arg, dv in zip(pos[len(pos) - len(a.defaults):], a.defaults):
        defaults[arg.arg] = dv
    for arg, dv in zip(a.kwonlyargs, a.kw_defaults):
        if dv is not None:
            defaults[arg.arg] = dv
    return defaults


def measure_list(tree, cls, name, extra_env, extra_params):
    f = find_def(tree, cls, "measure_list")
    params = [a.arg for a in f.args.posonlyargs + f.args.args]
    if len(params) != 3 or params[0] != "self" or f.args.kwonlyargs or f.args.vararg or f.args.kwarg:
        raise TranslateError(f"{cls}.measure_list: unexpected parameters {params}")
    env = {params[1]: ("v_" + params[1], "IL"), params[2]: ("v_" + params[2], "TL"), "self.k": ("self_k", "OptN")}
    env.update(extra_env)
    fn = Fn(env, "Res", True)
    ps = f"(self_k : option nat) {extra_params}(v_{params[1]} : ilist) (v_{params[2]} : tlist)"
    return fn.function(f, name, ps, "exc res")


def base_defs(tree):
    c = class_def(tree, "RankingMetricBase")
    init = find_def(tree, "RankingMetricBase", "__init__")
    # __init__: k < 0 rejected, then stored
    body = strip_doc(init.body)
    ok = (len(body) == 2 and isinstance(body[0], ast.If) and isinstance(body[1], ast.Assign)
          and dotted(body[1].targets[0]) == "self.k" and isinstance(body[1].value, ast.Name) and body[1].value.id == "k"
          and ast.unparse(body[0].test) == "k is not None and k < 0"
          and len(body[0].body) == 1 and isinstance(body[0].body[0], ast.Raise) and not body[0].orelse)
    if not ok:
        raise TranslateError("RankingMetricBase.__init__ is not `reject k < 0; self.k = k`")
    f = find_def(tree, "RankingMetricBase", "truncate")
    params = [a.arg for a in f.args.posonlyargs + f.args.args]
    if len(params) != 2:
        raise TranslateError(f"truncate parameters {params}")
    fn = Fn({params[1]: ("v_" + params[1], "IL"), "self.k": ("self_k", "OptN")}, "IL", True)
    del c
    return fn.function(f, "truncate", f"(self_k : option nat) (v_{params[1]} : ilist)", "exc ilist")


def dcg_helpers(tree):
    out = []
    for name, first_kind in (("array_dcg", "Arr"), ("fixed_dcg", "N")):
        f = find_def(tree, None, name)
        params = [a.arg for a in f.args.posonlyargs + f.args.args]
        if len(params) != 2:
            raise TranslateError(f"{name} parameters {params}")
        ty = {"Arr": "list Q", "N": "nat"}[first_kind]
        fn = Fn({params[0]: ("v_" + params[0], first_kind), params[1]: ("v_" + params[1], "Disc")}, "Q", False)
        out.append(fn.function(f, name, f"(v_{params[0]} : {ty}) (v_{params[1]} : nat -> Q)", "Q"))
    return "\n".join(out)


def default_q(node, what):
    if isinstance(node, ast.Constant) and isinstance(node.value, (int, float)) and not isinstance(node.value, bool):
        return qlit(node.value)
    raise TranslateError(f"default of {what} is not a numeric literal")


def translate(src) -> dict:
    d = src / "lenskit" / "metrics" / "ranking"
    base, hit, pr = pyq.parse(d / "_base.py"), pyq.parse(d / "_hit.py"), pyq.parse(d / "_pr.py")
    recip, rbp, dcg, pop = pyq.parse(d / "_recip.py"), pyq.parse(d / "_rbp.py"), pyq.parse(d / "_dcg.py"), pyq.parse(d / "_pop.py")
    out = [HEADER, base_defs(base)]
    for tree, cls, name in ((hit, "Hit", "hit"), (pr, "Precision", "precision"), (pr, "Recall", "recall"),
                            (recip, "RecipRank", "recip")):
        check_class(tree, cls, {})
        out.append(measure_list(tree, cls, f"{name}_measure_list", {}, ""))
    dfl = check_class(rbp, "RBP", {"patience": "Q", "normalize": "Bool"})
    out.append(measure_list(rbp, "RBP", "rbp_measure_list",
                            {"self.patience": ("self_patience", "Q"), "self.normalize": ("self_normalize", "Bool")},
                            "(self_patience : Q) (self_normalize : bool) "))
    out.append(f"Definition rbp_default_patience : Q := {default_q(dfl.get('patience'), 'RBP patience')}.\n")
    nd = dfl.get("normalize")
    if not (isinstance(nd, ast.Constant) and isinstance(nd.value, bool)):
        raise TranslateError("default of RBP normalize is not a boolean literal")
    out.append(f"Definition rbp_default_normalize : bool := {'true' if nd.value else 'false'}.\n")
    out.append(dcg_helpers(dcg))
    for cls, name in (("DCG", "dcg"), ("NDCG", "ndcg")):
        dfl = check_class(dcg, cls, {"discount": "Disc", "gain": "Flag"})
        if dotted(dfl.get("discount")) != "np.log2":
            raise TranslateError(f"default discount of {cls} is not np.log2")
        g = dfl.get("gain")
        if not (isinstance(g, ast.Constant) and g.value is None):
            raise TranslateError(f"default gain of {cls} is not None")
        out.append(measure_list(dcg, cls, f"{name}_measure_list",
                                {"self.discount": ("self_discount", "Disc"), "self.gain": ("self_gain", "Flag")},
                                "(self_discount : nat -> Q) (self_gain : bool) "))
    # MeanPopRank: the constructor (pandas rank) is modelled by hand; measure_list is generated
    c = class_def(pop, "MeanPopRank")
    if "RankingMetricBase" not in [dotted(b) for b in c.bases] or "truncate" in [n.name for n in c.body if isinstance(n, ast.FunctionDef)]:
        raise TranslateError("MeanPopRank no longer derives truncate from RankingMetricBase")
    out.append(measure_list(pop, "MeanPopRank", "pop_measure_list",
                            {"self.item_ranks": ("self_item_ranks", "Ser")}, "(self_item_ranks : gseries) "))
    out.append(pop_init(pop))
    out.append(default_discount_table())
    return {"Gen/C06_metrics.v": "\n".join(out)}


def default_discount_table(n=256) -> str:
    """The default discount (checked above to be np.log2) as NumPy evaluates it at ranks 1..n: exact
    rational values of the float64 results.  Used to show that the shipped discount satisfies the
    monotonicity hypothesis of the consequence theorems."""
    import numpy as np

    vals = np.log2(np.arange(1, n + 1))
    items = "; ".join(qlit(float(v)) for v in vals)
    return ("(* float64 values of np.log2(1..%d), the default discount of DCG and NDCG *)\n"
            "Definition log2_table : list Q := [%s].\n" % (n, items))


def pop_init(tree) -> str:
    """Shape of MeanPopRank.__init__: which column, positive counts only, average ranks ascending,
    divided by the number of positive items, zero for the others."""
    init = find_def(tree, "MeanPopRank", "__init__")
    src = "\n".join(ast.unparse(s) for s in strip_doc(init.body))
    want = [
        "super().__init__(k=k)",
        "stats = data.item_stats()",
        "counts = stats['user_count']",
        "counts = stats['count']",
        "pos = counts[counts > 0]",
        "ranks = pos.rank(method='average', ascending=True)",
        "ranks /= len(pos)",
        "self.item_ranks = ranks.reindex(counts.index, fill_value=0)",
    ]
    pos = -1
    for w in want:
        i = src.find(w, pos + 1)
        if i < 0:
            raise TranslateError(f"MeanPopRank.__init__: expected statement not found (in order): {w}")
        pos = i
    return ("(* MeanPopRank.__init__ has the expected shape: positive counts, rank(method='average', ascending=True),\n"
            "   divided by len(pos), re-indexed over all items with 0 *)\n"
            "Definition pop_init_shape_checked : bool := true.\n")
