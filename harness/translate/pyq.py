"""Fail-closed translator from a small, typed subset of Python to Gallina (shallow embedding).

Used for the scalar / series fragments named in DESIGN.md section 2.3 A.  Anything outside the
whitelisted grammar raises TranslateError, so the generated file is not produced and the
theorems that `Require` it stop compiling.

Kinds: "Q" rational scalar, "Z" integer, "Ser" series (list (option Q)), "OptQ", "Res" (QLib.res),
"Bool", ("Tup", k1, k2, ...), ("List", k), "DEAD" (name not readable here), plus any opaque kind
name a client registers (e.g. "Tbl").
"""

from __future__ import annotations

import ast
from fractions import Fraction
from pathlib import Path


class TranslateError(Exception):
    pass


def fail(node, why):
    line = getattr(node, "lineno", "?")
    raise TranslateError(f"line {line}: {why}: {ast.dump(node)[:160] if isinstance(node, ast.AST) else node}")


def find_def(tree: ast.AST, cls: str | None, name: str) -> ast.FunctionDef:
    body = tree.body
    if cls is not None:
        cs = [n for n in body if isinstance(n, ast.ClassDef) and n.name == cls]
        if len(cs) != 1:
            raise TranslateError(f"class {cls} not found exactly once")
        body = cs[0].body
    fs = [n for n in body if isinstance(n, ast.FunctionDef) and n.name == name]
    if len(fs) != 1:
        raise TranslateError(f"function {cls}.{name} not found exactly once")
    return fs[0]


def parse(path: Path) -> ast.Module:
    return ast.parse(Path(path).read_text(), filename=str(path))


def dotted(node) -> str | None:
    if isinstance(node, ast.Name):
        return node.id
    if isinstance(node, ast.Attribute):
        b = dotted(node.value)
        return None if b is None else b + "." + node.attr
    return None


def qlit(v) -> str:
    f = Fraction(v)
    return f"({f.numerator} # {f.denominator})"


def strip_doc(stmts):
    if stmts and isinstance(stmts[0], ast.Expr) and isinstance(stmts[0].value, ast.Constant) and isinstance(stmts[0].value.value, str):
        return stmts[1:]
    return stmts


class Fn:
    """Translate one function body.

    env:   {python name or dotted name: (gallina code, kind)}
    calls: {dotted callee: handler(self, node, args[(code, kind)]) -> (code, kind)}
    attrs: {dotted attribute: (code, kind)}      e.g. "np.nan"
    methods: {(kind, method name): handler(self, recv(code,kind), args) -> (code, kind)}
    """

    def __init__(self, env, ret_kind, calls=None, attrs=None, methods=None, coerce=None, fresh_calls=(), strict_inplace=False):
        # purity rule: an augmented assignment (x += e, x *= e ...) updates its target IN PLACE when the
        # target is a NumPy/pandas object, so it is accepted only when the target is known to be a fresh
        # local value (bound from arithmetic, a constant, or a call listed in fresh_calls) -- never a
        # parameter, a call result that may alias caller data, or an unpacked component of one.
        self.fresh_calls = set(fresh_calls)
        self.strict_inplace = strict_inplace   # opt-in (clients whose values are arrays/series)
        self.env0 = dict(env)
        self.ret_kind = ret_kind
        self.calls = calls or {}
        self.attrs = attrs or {}
        self.methods = methods or {}
        self.coerce_tbl = coerce or {}

    # ---- expressions -------------------------------------------------------------------
    def expr(self, n, env):
        if isinstance(n, ast.Name):
            if n.id not in env:
                fail(n, f"unknown name {n.id}")
            code, kind = env[n.id]
            if kind == "DEAD":
                fail(n, f"name {n.id} is read where it may be unbound or stale (loop variable after its loop)")
            return code, kind
        if isinstance(n, ast.Constant):
            if isinstance(n.value, bool):
                return ("true" if n.value else "false"), "Bool"
            if isinstance(n.value, (int, float)):
                return qlit(n.value), "Q"
            fail(n, "unsupported constant")
        if isinstance(n, ast.Attribute):
            d = dotted(n)
            if d in env:
                return env[d]
            if d in self.attrs:
                return self.attrs[d]
            fail(n, f"unsupported attribute {d}")
        if isinstance(n, ast.UnaryOp) and isinstance(n.op, ast.USub):
            c, k = self.expr(n.operand, env)
            if k == "Q":
                return f"(Qopp {c})", "Q"
            fail(n, "unary minus on non-scalar")
        if isinstance(n, ast.BinOp):
            a, ka = self.expr(n.left, env)
            b, kb = self.expr(n.right, env)
            return self.binop(n, type(n.op), a, ka, b, kb)
        if isinstance(n, ast.Compare):
            if len(n.ops) != 1:
                fail(n, "chained comparison")
            a, ka = self.expr(n.left, env)
            b, kb = self.expr(n.comparators[0], env)
            if ka != "Q" or kb != "Q":
                fail(n, "comparison of non-scalars")
            op = type(n.ops[0])
            tbl = {ast.Gt: f"(Qltb {b} {a})", ast.Lt: f"(Qltb {a} {b})", ast.GtE: f"(Qleb {b} {a})",
                   ast.LtE: f"(Qleb {a} {b})", ast.Eq: f"(Qeqb {a} {b})", ast.NotEq: f"(negb (Qeqb {a} {b}))"}
            if op not in tbl:
                fail(n, "unsupported comparison")
            return tbl[op], "Bool"
        if isinstance(n, ast.Tuple):
            parts = [self.expr(e, env) for e in n.elts]
            return "(" + ", ".join(c for c, _ in parts) + ")", ("Tup",) + tuple(k for _, k in parts)
        if isinstance(n, ast.Call):
            if n.keywords and dotted(n.func) not in self.calls:
                fail(n, "keyword arguments")
            d = dotted(n.func)
            if d in self.calls:
                args = [self.expr(a, env) for a in n.args]
                return self.calls[d](self, n, args)
            if isinstance(n.func, ast.Attribute):
                recv = self.expr(n.func.value, env)
                key = (recv[1], n.func.attr)
                if key in self.methods:
                    args = [self.expr(a, env) for a in n.args]
                    return self.methods[key](self, recv, args)
            fail(n, f"call outside the whitelist: {d}")
        fail(n, "unsupported expression")

    def binop(self, n, op, a, ka, b, kb):
        if ka == "Q" and kb == "Q":
            f = {ast.Add: "Qplus", ast.Sub: "Qminus", ast.Mult: "Qmult", ast.Div: "Qdiv"}.get(op)
            if f:
                return f"({f} {a} {b})", "Q"
        if ka == "Ser" and kb == "Ser":
            f = {ast.Sub: "ser_sub", ast.Mult: "ser_mul"}.get(op)
            if f:
                return f"({f} {a} {b})", "Ser"
        fail(n, f"unsupported operator on kinds {ka}, {kb}")

    def coerce(self, n, code, kind, want):
        if kind == want:
            return code
        if (kind, want) in self.coerce_tbl:
            return self.coerce_tbl[(kind, want)](code)
        if want == "Res" and kind == "Q":
            return f"(RVal {code})"
        if want == "Res" and kind == "OptQ":
            return f"(res_of_opt {code})"
        fail(n, f"cannot return kind {kind} where {want} is expected")

    # ---- statements --------------------------------------------------------------------
    def block(self, stmts, env):
        """Translate a block that must end in a return on every path."""
        if not stmts:
            raise TranslateError("control reaches the end of a function without a return")
        s, rest = stmts[0], stmts[1:]
        if isinstance(s, ast.Return):
            if s.value is None:
                fail(s, "bare return")
            c, k = self.expr(s.value, env)
            return self.coerce(s, c, k, self.ret_kind)
        if isinstance(s, ast.Expr) and isinstance(s.value, ast.Constant) and isinstance(s.value.value, str):
            return self.block(rest, env)
        if isinstance(s, ast.Assign):
            if len(s.targets) != 1:
                fail(s, "multiple assignment targets")
            c, k = self.expr(s.value, env)
            pat, env2 = self.bind(s.targets[0], k, env)
            if isinstance(s.targets[0], ast.Name):
                self.mark_fresh(env2, s.targets[0].id, self.is_fresh_value(s.value))
            return f"let {pat} := {c} in\n  {self.block(rest, env2)}"
        if isinstance(s, ast.AugAssign):
            if not isinstance(s.target, ast.Name):
                fail(s, "augmented assignment to non-name")
            self.require_fresh(s, env, s.target.id)
            a, ka = self.expr(s.target, env)
            b, kb = self.expr(s.value, env)
            c, k = self.binop(s, type(s.op), a, ka, b, kb)
            env2 = dict(env)
            env2[s.target.id] = (s.target.id, k)
            return f"let {s.target.id} := {c} in\n  {self.block(rest, env2)}"
        if isinstance(s, ast.If):
            c, k = self.expr(s.test, env)
            if k != "Bool":
                fail(s, "condition is not a comparison / boolean")
            then = self.block(s.body, env)
            other = self.block(s.orelse if s.orelse else rest, env)
            if s.orelse and rest:
                fail(s, "statements after an if/else whose branches both return")
            return f"if {c} then ({then})\n  else ({other})"
        if isinstance(s, ast.For):
            return self.loop(s, rest, env)
        fail(s, "unsupported statement")

    def is_fresh_value(self, node) -> bool:
        if isinstance(node, (ast.BinOp, ast.Constant, ast.UnaryOp, ast.Compare)):
            return True
        if isinstance(node, ast.Call) and dotted(node.func) in self.fresh_calls:
            return True
        return False

    @staticmethod
    def mark_fresh(env, name, fresh):
        cur = set(env.get("__fresh__", (frozenset(), None))[0])
        (cur.add if fresh else cur.discard)(name)
        env["__fresh__"] = (frozenset(cur), "META")

    def require_fresh(self, node, env, name):
        if self.strict_inplace and name not in env.get("__fresh__", (frozenset(), None))[0]:
            fail(node, f"in-place update of {name}, which may share storage with the caller's data")

    def bind(self, target, kind, env):
        env2 = dict(env)
        if isinstance(target, ast.Name):
            env2[target.id] = (target.id, kind)
            return target.id, env2
        if isinstance(target, ast.Tuple) and isinstance(kind, tuple) and kind[0] == "Tup" and len(kind) - 1 == len(target.elts):
            names = []
            for e, k in zip(target.elts, kind[1:]):
                if not isinstance(e, ast.Name):
                    fail(target, "nested unpacking")
                env2[e.id] = (e.id, k)
                self.mark_fresh(env2, e.id, False)
                names.append(e.id)
            return "'(" + ", ".join(names) + ")", env2
        fail(target, f"cannot bind a value of kind {kind}")

    def loop(self, s, rest, env):
        if s.orelse:
            fail(s, "for/else")
        it, kit = self.expr(s.iter, env)
        if not (isinstance(kit, tuple) and kit[0] == "List"):
            fail(s, "loop over a non-list")
        ek = kit[1]
        inner = dict(env)
        pat, inner = self.bind(s.target, ek, inner)
        targets = [n.id for n in ast.walk(s.target) if isinstance(n, ast.Name)]
        assigned = []
        body_code = []
        for b in s.body:
            if isinstance(b, ast.AugAssign) and isinstance(b.target, ast.Name):
                self.require_fresh(b, inner, b.target.id)
                a, ka = self.expr(b.target, inner)
                v, kv = self.expr(b.value, inner)
                c, k = self.binop(b, type(b.op), a, ka, v, kv)
                name = b.target.id
            elif isinstance(b, ast.Assign) and len(b.targets) == 1 and isinstance(b.targets[0], ast.Name):
                c, k = self.expr(b.value, inner)
                name = b.targets[0].id
            else:
                fail(b, "loop body statement outside the whitelist")
            if name in targets:
                fail(b, "assignment to the loop variable")
            inner[name] = (name, k)
            body_code.append(f"let {name} := {c} in")
            if name not in assigned:
                assigned.append(name)
        state = [v for v in assigned if v in env and env[v][1] != "DEAD"]
        for v in state:
            if env[v][1] != inner[v][1]:
                fail(s, f"loop changes the kind of {v}")
        if not state:
            fail(s, "loop without accumulated state")
        st = "(" + ", ".join(state) + ")" if len(state) > 1 else state[0]
        stpat = "'" + st if len(state) > 1 else st
        after = dict(env)
        for v in assigned:
            if v not in state:
                after[v] = (v, "DEAD")
        for v in targets:
            after[v] = (v, "DEAD")
        fold = (
            f"fold_left (fun st el => let {stpat} := st in let {pat} := el in "
            + " ".join(body_code)
            + f" {st}) {it} {st}"
        )
        return f"let {stpat} := {fold} in\n  {self.block(rest, after)}"

    def function(self, fdef: ast.FunctionDef, name: str, params: str, ret_type: str) -> str:
        body = self.block(strip_doc(fdef.body), dict(self.env0))
        return f"Definition {name} {params} : {ret_type} :=\n  {body}.\n"
