"""C05 implementation driver: runs the real lenskit splitters on one case and returns a canonical,
JSON-able observation.  Imported by props/c05.py (in-process, TZ=UTC) and run as a script in a
separate process when a case asks for another time zone:

    python c05_impl.py < cases.json > observations.json      (TZ etc. from common.base_env)
"""

from __future__ import annotations

import datetime as dt
import json
import sys
from fractions import Fraction

import common

_ready = False
ERRS = {"ValueError": 1, "TypeError": 2, "RuntimeError": 3}


def _setup():
    global _ready, np, pd, lk, sp, DatasetBuilder, TTSplit
    if _ready:
        return
    common.use_repo()
    import numpy as np
    import pandas as pd
    import lenskit.data as lk
    import lenskit.splitting as sp
    from lenskit.data import DatasetBuilder
    from lenskit.splitting import TTSplit
    _ready = True


def _recorder(seed):
    class Rec(np.random.Generator):
        """numpy Generator that remembers what shuffle / choice returned."""

        def __init__(self, seed):
            super().__init__(np.random.PCG64(seed))
            self.log = []

        def shuffle(self, x, *a, **k):
            r = super().shuffle(x, *a, **k)
            self.log.append({"op": "shuffle", "n": len(x), "out": np.asarray(x).tolist()})
            return r

        def choice(self, a, size=None, *args, **k):
            r = super().choice(a, size, *args, **k)
            if np.isscalar(a) or isinstance(a, (int, np.integer)):
                self.log.append({"op": "choice", "n": int(a), "size": int(size), "out": np.asarray(r).tolist()})
            else:
                pos = {v: i for i, v in enumerate(np.asarray(a).tolist())}
                self.log.append({"op": "choice", "n": len(a), "size": int(size),
                                 "out": [pos[v] for v in np.asarray(r).tolist()]})
            return r

    return Rec(seed)


class HWrap:
    """Wraps a hold-out rule: per call remembers the row length, the rng.choice draw it made and
    what np.argsort returns for the ordering column of that row."""

    def __init__(self, inner, rec, field):
        self.inner, self.rec, self.field = inner, rec, field
        self.calls = []

    def __call__(self, items):
        k0 = len(self.rec.log) if self.rec is not None else 0
        e = {"len": len(items), "draw": None, "ordered": None, "col": None}
        if self.field is not None:
            col = items.field(self.field)
            if col is not None:
                e["ordered"] = np.argsort(col).tolist()
                e["col"] = _ints(col, self.field == "timestamp")
        self.calls.append(e)
        out = self.inner(items)
        if self.rec is not None and len(self.rec.log) > k0:
            d = self.rec.log[k0]
            e["draw"] = {"n": d["n"], "size": d["size"], "out": d["out"]}
        return out


def _ints(col, times=False):
    a = np.asarray(col)
    if a.dtype.kind == "M":
        return a.astype("datetime64[ns]").astype("int64").tolist()
    if a.dtype.kind == "f" and not times:
        return [_attr(x) for x in a.tolist()]
    if a.dtype.kind == "f":
        # pandas widens an integer time column to float when frames without it are concatenated
        # (test_df of a collection with empty lists); the value must still be the stored integer
        return [int(x) if float(x).is_integer() else f"{Fraction(float(x)).numerator}/{Fraction(float(x)).denominator}" for x in a.tolist()]
    return [int(x) for x in a.tolist()]


def _attr(x):
    q = Fraction(float(x)) * 4
    return int(q) if q.denominator == 1 else f"{q.numerator}/{q.denominator}"


def _uid(x, ids):
    return int(x[1:]) if ids == "str" else int(x)


def build_dataset(data):
    rows = data["rows"]
    ids = data["ids"]
    fu = (lambda u: f"u{u:03d}") if ids == "str" else (lambda u: u)
    fi = (lambda i: f"i{i:03d}") if ids == "str" else (lambda i: i)
    d = {"user_id": [fu(r[0]) for r in rows], "item_id": [fi(r[1]) for r in rows],
         "rating": [r[2] / 4.0 for r in rows]}
    if data["tcol"] == "int":
        d["timestamp"] = np.array([r[3] for r in rows], dtype=np.int64)
    elif data["tcol"] == "ts" and data.get("tunit", "ns") != "ns":
        # stored as timestamp[s|ms|us]; the case carries nanoseconds (multiples of the unit)
        q = {"s": 10**9, "ms": 10**6, "us": 10**3}[data["tunit"]]
        assert all(r[3] % q == 0 for r in rows)
        d["timestamp"] = np.array([r[3] // q for r in rows], dtype=np.int64).view(f"datetime64[{data['tunit']}]")
    elif data["tcol"] == "ts":
        d["timestamp"] = pd.to_datetime(np.array([r[3] for r in rows], dtype=np.int64), unit="ns")
    df = pd.DataFrame(d)
    sp_ = data.get("space")
    if data.get("build"):
        # assembled incrementally: entity declarations and interaction chunks in the given order
        b = DatasetBuilder("c05-batched")
        pairs = list(zip((r[0] for r in rows), (r[1] for r in rows)))
        for st in data["build"]:
            if st["op"] in ("user", "item"):
                f = fu if st["op"] == "user" else fi
                vals = [f(x) for x in st["ids"]]
                arr = np.array(vals, dtype=np.int64) if ids == "int" else vals
                if st.get("dup"):
                    b.add_entities(st["op"], arr, duplicates="update")
                else:
                    b.add_entities(st["op"], arr)
            else:
                want = {tuple(p) for p in st["pairs"]}
                idx = [k for k, p in enumerate(pairs) if p in want]
                if not idx:
                    continue   # every row of this chunk was removed while shrinking
                b.add_interactions("rating", df.iloc[idx].reset_index(drop=True), entities=["user", "item"],
                                   missing=st["missing"], default=True)
        return b.build()
    if sp_ is None:
        return lk.from_interactions_df(df)
    # large identifier space: entity tables declared up front (ids 1..n), few interaction records
    assert ids == "int"
    b = DatasetBuilder("c05-space")
    b.add_entities("user", np.arange(1, sp_["users"] + 1))
    b.add_entities("item", np.arange(1, sp_["items"] + 1))
    b.add_interactions("rating", df, entities=["user", "item"], default=True)
    return b.build()


def frame_rows(df, data):
    """[[u, i, a, t], ...] sorted, from a frame with user_id / item_id / rating / timestamp columns."""
    if df is None or len(df) == 0:
        return []
    ids = data["ids"]
    us = [_uid(x, ids) for x in df["user_id"].tolist()]
    its = [_uid(x, ids) for x in df["item_id"].tolist()]
    ra = [_attr(x) for x in df["rating"].tolist()] if "rating" in df.columns else [None] * len(us)
    ts = _ints(df["timestamp"], True) if "timestamp" in df.columns else [0] * len(us)
    return sorted(([u, i, a, t] for u, i, a, t in zip(us, its, ra, ts)), key=lambda r: (r[0], r[1], str(r[2]), r[3]))


def list_rows(u, il, data):
    ids = data["ids"]
    its = [_uid(x, ids) for x in il.ids().tolist()]
    ra = il.field("rating")
    ts = il.field("timestamp")
    ra = [_attr(x) for x in np.asarray(ra).tolist()] if ra is not None else [None] * len(its)
    ts = _ints(ts, True) if ts is not None else [0] * len(its)
    return [[u, i, a, t] for i, a, t in zip(its, ra, ts)]


def observe_split(s, data):
    ids = data["ids"]
    test, keys = [], []
    for key, il in s.test.items():
        u = _uid(key.user_id if hasattr(key, "user_id") else key[0], ids)
        keys.append(u)
        test.extend(list_rows(u, il, data))
    srt = lambda rows: sorted(rows, key=lambda r: (r[0], r[1], str(r[2]), r[3]))
    out = {
        "train": frame_rows(s.train.interaction_table(format="pandas", original_ids=True), data),
        "test": srt(test),
        "keys": keys,
        "size": int(s.test_size),
    }
    try:
        out["train_df"] = frame_rows(s.train_df, data)
    except Exception as e:  # the view itself failing is an observation
        out["train_df"] = f"{type(e).__name__}"
    try:
        with_rows = any(len(il) > 0 for il in s.test.lists())
        out["test_df"] = frame_rows(s.test_df, data) if with_rows else []
    except Exception as e:
        out["test_df"] = f"{type(e).__name__}"
    return out


def mk_cut(c):
    """cut-off spec -> the Python value handed to lenskit"""
    if c is None:
        return None
    q = Fraction(c["v"])
    if c["k"] == "num":
        return float(q) if (c.get("float") or q.denominator != 1) else int(q)
    if c["k"] == "pts":
        # a pandas Timestamp (what an element / quantile of a datetime column is): nanosecond resolution
        ns = q * 10**9
        assert ns.denominator == 1
        t = pd.Timestamp(int(ns), unit="ns")
        return t.as_unit(c["as"]) if c.get("as") else t
    us = q * 1_000_000
    assert us.denominator == 1
    d = dt.datetime(1970, 1, 1) + dt.timedelta(microseconds=int(us))
    return d if c["k"] == "dt" else d.isoformat()


def mk_holdout(h, rec):
    k = h["kind"]
    if k == "SampleN":
        return HWrap(sp.SampleN(h["n"], rng=rec), rec, None)
    if k == "SampleFrac":
        return HWrap(sp.SampleFrac(float.fromhex(h["frac"]), rng=rec), rec, None)
    if k == "LastN":
        return HWrap(sp.LastN(h["n"], field=h["field"]) if h["field"] != "timestamp" or h.get("explicit") else sp.LastN(h["n"]), None, h["field"])
    if k == "LastFrac":
        return HWrap(sp.LastFrac(float.fromhex(h["frac"]), field=h["field"]) if h["field"] != "timestamp" or h.get("explicit") else sp.LastFrac(float.fromhex(h["frac"])), None, h["field"])
    raise ValueError(k)


def observe(case):
    _setup()
    data, call = case["data"], case["call"]
    try:
        ds = build_dataset(data)
        full = ds.interactions().pandas(ids=True)
    except AssertionError:
        raise
    except Exception as e:
        if not data.get("build"):
            raise
        # assembling the dataset chunk by chunk is part of the input space: a failure is an observation
        return {"recs": [], "users": [], "error": 9, "msg": f"{type(e).__name__}: {e}"[:160], "build_error": True,
                "folds": [], "draws": [], "hdraws": []}
    obs = {"recs": _stored(full, data), "users": [_uid(x, data["ids"]) for x in ds.users.ids().tolist()],
           "error": 0, "folds": [], "draws": [], "hdraws": []}
    rec = _recorder(case["seed"])
    fn = call["fn"]
    try:
        if fn == "crossfold_records":
            res = sp.crossfold_records(ds, call["k"], test_only=call["test_only"], rng=rec)
        elif fn == "sample_records":
            kw = dict(disjoint=call["disjoint"], test_only=call["test_only"], rng=rec)
            if call["repeats"] is not None:
                kw["repeats"] = call["repeats"]
            res = sp.sample_records(ds, call["size"], **kw)
        elif fn in ("crossfold_users", "sample_users"):
            hrec = _recorder(case["seed"] + 1)
            hw = mk_holdout(call["holdout"], hrec)
            if fn == "crossfold_users":
                res = sp.crossfold_users(ds, call["k"], hw, test_only=call["test_only"], rng=rec)
            else:
                kw = dict(disjoint=call["disjoint"], test_only=call["test_only"], rng=rec)
                if call["repeats"] is not None:
                    kw["repeats"] = call["repeats"]
                res = sp.sample_users(ds, call["size"], hw, **kw)
            if isinstance(res, TTSplit):
                res = [res]
            k0 = 0
            for s in res:
                obs["folds"].append(observe_split(s, data))
                obs["hdraws"].append(hw.calls[k0:])
                k0 = len(hw.calls)
            res = []
        elif fn == "split_global_time":
            cuts = [mk_cut(c) for c in call["cuts"]]
            res = sp.split_global_time(ds, cuts[0] if call["single"] else cuts, mk_cut(call["end"]))
        elif fn == "split_temporal_fraction":
            f = float.fromhex(call["frac"])
            if "timestamp" in full.columns:
                point = ds.interaction_table(format="pandas")["timestamp"].quantile(1 - f)
                if isinstance(point, dt.datetime):
                    obs["cut"] = {"k": "wall", "v": common.fjson(Fraction(int(pd.Timestamp(point).value), 10**9))}
                else:
                    obs["cut"] = {"k": "num", "v": common.fjson(Fraction(float(point)))}
            res = sp.split_temporal_fraction(ds, f)
        elif fn == "filter_interactions":
            b = DatasetBuilder(ds)
            b.filter_interactions(ds.default_interaction_class(), min_time=mk_cut(call["min"]), max_time=mk_cut(call["max"]))
            out = b.build()
            obs["rows"] = frame_rows(out.interaction_table(format="pandas", original_ids=True), data)
            res = []
        else:
            raise AssertionError(fn)
        if isinstance(res, TTSplit):
            res = [res]
        for s in res:
            obs["folds"].append(observe_split(s, data))
    except AssertionError:
        raise
    except Exception as e:
        # documented rejections are ValueError / TypeError / RuntimeError themselves; anything else
        # (including their library subclasses, e.g. pyarrow's ArrowTypeError) is class 9, which no input expects
        obs["error"] = ERRS.get(type(e).__name__, 9)
        obs["msg"] = f"{type(e).__name__}: {e}"[:160]
        obs["folds"] = []
    obs["draws"] = rec.log
    return obs


def _stored(full, data):
    """interaction records in the order the dataset stores them (positions the masks refer to)"""
    ids = data["ids"]
    us = [_uid(x, ids) for x in full["user_id"].tolist()]
    its = [_uid(x, ids) for x in full["item_id"].tolist()]
    ra = [_attr(x) for x in full["rating"].tolist()]
    ts = _ints(full["timestamp"], True) if "timestamp" in full.columns else [0] * len(us)
    return [[u, i, a, t] for u, i, a, t in zip(us, its, ra, ts)]


if __name__ == "__main__":
    cases = json.load(sys.stdin)
    out = []
    for c in cases:
        try:
            out.append({"obs": observe(c)})
        except Exception as e:  # reported by the caller as a harness error
            out.append({"harness_error": f"{type(e).__name__}: {e}"})
    import os
    import time
    json.dump({"tz": os.environ.get("TZ"), "tzname": list(time.tzname), "results": out}, sys.stdout)
